(** Templates with interpolation and scripts (C01 + C02, straight-line fragment): the generated body is, provably,
    a sequence of string-literal writes and dynamic blocks, [denotes], whose meaning is the sequence of segments
    [segs_of]: literal HTML, and for each `= expr` / `#{expr}` the value of the expression passed through
    goht.EscapeString.  What Go does with such code is the only thing trusted: WriteString appends the literal's
    value, the dynamic block appends EscapeString of the expression's value, an error returns. *)
From GV Require Import Compiler.Emit Proofs.Utf8Proofs Proofs.QuoteProofs Proofs.ChunkProofs Proofs.EmitProofs
  Proofs.PassThroughProofs Proofs.DynamicProofs Proofs.StaticProofs.
From Coq Require Import Lia.
Open Scope N_scope.

Inductive seg :=
| SLit (h : bytes)                        (* these bytes, as they are *)
| SDyn (t : token)                        (* html-escaped value of the Go expression [formatted_code t] *)
| SDynQ (t : token)                       (* the same, followed by the double quote that closes an attribute value *)
| SRaw (t : token)                        (* the value of the expression as it is: `!=`, `! ... #{}` *)
| SBlock (stmt : bytes) (body : list seg)  (* the Go statement [stmt { body }]: body rendered when / as often as Go runs it *)
| SBlockOpen (stmt : bytes) (body : list seg)   (* [stmt { body] with the closing brace left to the `else` that follows *)
| SBlockCont (stmt : bytes) (body : list seg)   (* [} stmt { body], again left open: `else if` followed by another else *)
| SBlockLast (stmt : bytes) (body : list seg)   (* [} stmt { body }]: the last link of an if / else chain *)
| SObjId (expr : bytes)                   (* [obj] : ` id="..."` from goht.ObjectID(expr), when it is not empty *)
| SClassList (args : bytes)               (* ` class="..."` from goht.BuildClassList(args) *)
| SAttrList (cmd : bytes)                 (* the attributes goht.BuildAttributeList(cmd) builds *)
| SStmt (stmt : bytes)                    (* a line of Go: `- x := f()` *)
| SLine (stmt : bytes) (body : list seg)  (* a line of Go followed by nested content, without braces of its own: `- case 1:` *)
| SChildren                               (* = @children : __children.Render(ctx, __buf) *)
| SRender (expr : bytes) (block : option (list seg)).
                                          (* = @render expr : expr.Render(ctx, __buf), or with the nested content as children *)

(** the meaning of a segment list under a valuation of the Go expressions *)
(** (blocks have no meaning without Go's semantics of the statement: they contribute nothing here) *)
Definition eval_segs (rho : bytes -> bytes) (l : list seg) : bytes :=
  List.concat (map (fun s => match s with SLit h => h | SDyn t => html_escape (rho (formatted_code t))
                             | SDynQ t => html_escape (rho (formatted_code t)) ++ [34]
                             | SRaw t => rho (formatted_code t) | _ => [] end) l).

(** [ind] is the indentation of the Go code at this point of the template body *)
Definition Lo (ind : nat) : wlocal := mkWL ind true true false.     (* a string literal is open *)
Definition Lc (ind : nat) : wlocal := mkWL ind false false false.   (* no literal is open *)
Definition loc_of (ind : nat) (m : bool) : wlocal := if m then Lo ind else Lc ind.

(** where a run of generated code starts or ends: inside an open string literal, outside, or outside with an
    `if`/`else if` block still waiting for its `} else` (the closing brace has not been written) *)
Inductive mode := MO | MC | MP.
Definition mode_of_bool (b : bool) : mode := if b then MO else MC.
Coercion mode_of_bool : bool >-> mode.
Definition bool_of_mode (m : mode) : bool := match m with MO => true | _ => false end.

Definition opener (ind : nat) : bytes := tabs ind ++ write_string_open ++ lit """".

(** the code of one dynamic block, for the temporary [v] *)
Definition dyn_code (ind : nat) (v : bytes) (t : token) : bytes :=
  tabs ind ++ lit "var " ++ v ++ lit " string" ++ [10] ++
  tabs ind ++ lit "if " ++ v ++ lit ", __err = goht.CaptureErrors(" ++
    lit "goht.EscapeString(" ++ formatted_code t ++ lit ")" ++ lit "); __err != nil { return }" ++ [10] ++
  tabs ind ++ write_string_open ++ v ++ lit "); __err != nil { return }" ++ [10].

(** [denotes m m' code segs]: [code], starting with a literal open ([m]) or not and ending so ([m']), is a
    well-formed run of literal chunks and dynamic blocks that stands for [segs] *)
(** the same block in an unescaped context: no goht.EscapeString *)
Definition raw_code (ind : nat) (v : bytes) (t : token) : bytes :=
  tabs ind ++ lit "var " ++ v ++ lit " string" ++ [10] ++
  tabs ind ++ lit "if " ++ v ++ lit ", __err = goht.CaptureErrors(" ++ formatted_code t ++ lit "); __err != nil { return }" ++ [10] ++
  tabs ind ++ write_string_open ++ v ++ lit "); __err != nil { return }" ++ [10].

(** the code of a dynamic attribute value: the escaped value and the closing quote in one write *)
Definition attr_dyn_code (ind : nat) (t : token) : bytes :=
  tabs ind ++ write_string_open ++ lit "goht.EscapeString(" ++ formatted_code t ++ lit ")+""\""""); __err != nil { return }" ++ [10].

Definition block_code (ind : nat) (stmt body_code : bytes) (mb : bool) : bytes :=
  tabs ind ++ stmt ++ lit " {" ++ [10] ++ body_code ++ (if mb then close_text (Lo (S ind)) else []) ++ tabs ind ++ lit "}" ++ [10].

Definition objid_code (ind : nat) (v expr : bytes) : bytes :=
  tabs ind ++ lit "if " ++ v ++ lit " := goht.ObjectID(" ++ expr ++ lit "); " ++ v ++ lit " != """" {" ++ [10] ++
  tabs ind ++ [9] ++ write_string_open ++ lit """ id=\""""+" ++ v ++ lit "+""\""""); __err != nil { return }" ++ [10] ++
  tabs ind ++ lit "}" ++ [10].

Definition classlist_code (ind : nat) (v args : bytes) : bytes :=
  tabs ind ++ lit "var " ++ v ++ lit " string" ++ [10] ++
  tabs ind ++ v ++ lit ", __err = goht.BuildClassList(" ++ args ++ lit ")" ++ [10] ++
  tabs ind ++ lit "if __err != nil { return }" ++ [10] ++
  tabs ind ++ write_string_open ++ lit """ class=\""""+" ++ v ++ lit "+""\""""" ++ lit "); __err != nil { return }" ++ [10].

Definition attrlist_code (ind : nat) (v cmd : bytes) : bytes :=
  tabs ind ++ lit "var " ++ v ++ lit " string" ++ [10] ++
  tabs ind ++ v ++ lit ", __err = goht.BuildAttributeList(" ++ cmd ++ lit ")" ++ [10] ++
  tabs ind ++ lit "if __err != nil { return }" ++ [10] ++
  tabs ind ++ write_string_open ++ v ++ lit "); __err != nil { return }" ++ [10].

(** one link of an if / else-if / else chain, without its closing brace *)
Definition chain_head_code (ind : nat) (first : bool) (stmt body_code : bytes) (mb : bool) : bytes :=
  tabs ind ++ (if first then [] else lit "} ") ++ stmt ++ lit " {" ++ [10] ++ body_code ++ (if mb then close_text (Lo (S ind)) else []).

Definition children_code (ind : nat) : bytes :=
  tabs ind ++ lit "if __err = __children.Render(ctx, __buf); __err != nil { return }" ++ [10].

Definition render_code (ind : nat) (expr : bytes) : bytes :=
  tabs ind ++ lit "if __err = " ++ expr ++ lit ".Render(ctx, __buf); __err != nil { return }" ++ [10].

(** `= @render expr` with nested content: the content becomes a TemplateFunc, passed to the callee as its children *)
Definition render_block_code (ind : nat) (v expr body_code : bytes) (mb : bool) : bytes :=
  tabs ind ++ v ++ lit " := goht.TemplateFunc(func(ctx context.Context, __w io.Writer) (__err error) {" ++ [10] ++
  List.concat (map (fun line => tabs (S ind) ++ line) render_body_pre) ++
  body_code ++ (if mb then close_text (Lo (S ind)) else []) ++
  List.concat (map (fun line => tabs ind ++ line) render_body_post) ++
  tabs ind ++ lit "if __err = " ++ expr ++ lit ".Render(goht.PushChildren(ctx, " ++ v ++ lit "), __buf); __err != nil { return }" ++ [10].

Lemma block_code_chain ind code bc mb : chain_head_code ind true code bc mb ++ tabs ind ++ lit "}" ++ [10] = block_code ind code bc mb.
Proof. unfold chain_head_code, block_code. rewrite app_nil_l. rewrite <- !app_assoc. reflexivity. Qed.

Inductive denotes : nat -> mode -> mode -> bytes -> list seg -> Prop :=
| d_nil ind m : denotes ind m m [] []
| d_lit ind p h rest segs m' : reads_as p h -> denotes ind true m' rest segs -> denotes ind true m' (p ++ rest) (SLit h :: segs)
| d_open ind rest segs m' : denotes ind true m' rest segs -> denotes ind false m' (opener ind ++ rest) segs
| d_close ind rest segs m' : denotes ind false m' rest segs -> denotes ind true m' (close_text (Lo ind) ++ rest) segs
| d_dyn ind v t rest segs m' : denotes ind false m' rest segs -> denotes ind false m' (dyn_code ind v t ++ rest) (SDyn t :: segs)
| d_attr ind t rest segs m' : denotes ind false m' rest segs -> denotes ind false m' (attr_dyn_code ind t ++ rest) (SDynQ t :: segs)
| d_raw ind v t rest segs m' : denotes ind false m' rest segs -> denotes ind false m' (raw_code ind v t ++ rest) (SRaw t :: segs)
| d_children ind rest segs m' : denotes ind false m' rest segs -> denotes ind false m' (children_code ind ++ rest) (SChildren :: segs)
| d_render ind expr rest segs m' : denotes ind false m' rest segs ->
    denotes ind false m' (render_code ind expr ++ rest) (SRender expr None :: segs)
| d_render_block ind v expr body_code body (mb : bool) rest segs m' :
    denotes (S ind) false mb body_code body -> denotes ind false m' rest segs ->
    denotes ind false m' (render_block_code ind v expr body_code mb ++ rest) (SRender expr (Some body) :: segs)
| d_objid ind v expr rest segs m' : denotes ind false m' rest segs ->
    denotes ind false m' (objid_code ind v expr ++ rest) (SObjId expr :: segs)
| d_classlist ind v args rest segs m' : denotes ind false m' rest segs ->
    denotes ind false m' (classlist_code ind v args ++ rest) (SClassList args :: segs)
| d_attrlist ind v cmd rest segs m' : denotes ind false m' rest segs ->
    denotes ind false m' (attrlist_code ind v cmd ++ rest) (SAttrList cmd :: segs)
| d_stmt ind stmt rest segs m' : denotes ind false m' rest segs ->
    denotes ind false m' ((tabs ind ++ stmt ++ [10]) ++ rest) (SStmt stmt :: segs)
| d_line ind stmt body_code body (mb : bool) rest segs m' :
    denotes (S ind) false mb body_code body -> denotes ind false m' rest segs ->
    denotes ind false m' ((tabs ind ++ stmt ++ [10] ++ body_code ++ (if mb then close_text (Lo (S ind)) else [])) ++ rest) (SLine stmt body :: segs)
| d_block ind stmt body_code body (mb : bool) rest segs m' :
    denotes (S ind) false mb body_code body -> denotes ind false m' rest segs ->
    denotes ind false m' (block_code ind stmt body_code mb ++ rest) (SBlock stmt body :: segs)
| d_block_open ind stmt body_code body (mb : bool) rest segs m' :
    denotes (S ind) false mb body_code body -> denotes ind MP m' rest segs ->
    denotes ind false m' (chain_head_code ind true stmt body_code mb ++ rest) (SBlockOpen stmt body :: segs)
| d_block_cont ind stmt body_code body (mb : bool) rest segs m' :
    denotes (S ind) false mb body_code body -> denotes ind MP m' rest segs ->
    denotes ind MP m' (chain_head_code ind false stmt body_code mb ++ rest) (SBlockCont stmt body :: segs)
| d_block_last ind stmt body_code body (mb : bool) rest segs m' :
    denotes (S ind) false mb body_code body -> denotes ind false m' rest segs ->
    denotes ind MP m' ((chain_head_code ind false stmt body_code mb ++ tabs ind ++ lit "}" ++ [10]) ++ rest) (SBlockLast stmt body :: segs).

Lemma denotes_app ind m1 m2 m3 c1 s1 c2 s2 : denotes ind m1 m2 c1 s1 -> denotes ind m2 m3 c2 s2 -> denotes ind m1 m3 (c1 ++ c2) (s1 ++ s2).
Proof.
  intro H1. revert m3 c2 s2.
  induction H1 as [ind m|ind p h rest segs m' Hr _ IH|ind rest segs m' _ IH|ind rest segs m' _ IH|ind v t rest segs m' _ IH
                  |ind t rest segs m' _ IH|ind v t rest segs m' _ IH|ind rest segs m' _ IH|ind expr rest segs m' _ IH
                  |ind v expr bc body mb rest segs m' Hb _ _ IH|ind v expr rest segs m' _ IH|ind v args rest segs m' _ IH|ind v cmd rest segs m' _ IH|ind stmt rest segs m' _ IH|ind stmt bc body mb rest segs m' Hb _ _ IH|ind stmt bc body mb rest segs m' Hb _ _ IH
                  |ind stmt bc body mb rest segs m' Hb _ _ IH|ind stmt bc body mb rest segs m' Hb _ _ IH|ind stmt bc body mb rest segs m' Hb _ _ IH]; intros m3 c2 s2 H2; cbn [app].
  - exact H2.
  - rewrite <- app_assoc. apply d_lit; [exact Hr|apply IH; exact H2].
  - rewrite <- app_assoc. apply d_open. apply IH; exact H2.
  - rewrite <- app_assoc. apply d_close. apply IH; exact H2.
  - rewrite <- app_assoc. apply d_dyn. apply IH; exact H2.
  - rewrite <- app_assoc. apply d_attr. apply IH; exact H2.
  - rewrite <- app_assoc. apply d_raw. apply IH; exact H2.
  - rewrite <- app_assoc. apply d_children. apply IH; exact H2.
  - rewrite <- app_assoc. apply d_render. apply IH; exact H2.
  - rewrite <- app_assoc. apply d_render_block; [exact Hb|apply IH; exact H2].
  - rewrite <- app_assoc. apply d_objid. apply IH; exact H2.
  - rewrite <- app_assoc. apply d_classlist. apply IH; exact H2.
  - rewrite <- app_assoc. apply d_attrlist. apply IH; exact H2.
  - rewrite <- app_assoc. apply d_stmt. apply IH; exact H2.
  - rewrite <- app_assoc. apply d_line; [exact Hb|apply IH; exact H2].
  - rewrite <- app_assoc. apply d_block; [exact Hb|apply IH; exact H2].
  - rewrite <- app_assoc. apply d_block_open; [exact Hb|apply IH; exact H2].
  - rewrite <- app_assoc. apply d_block_cont; [exact Hb|apply IH; exact H2].
  - rewrite <- app_assoc. apply d_block_last; [exact Hb|apply IH; exact H2].
Qed.

(** writer states of the two modes *)
(** the whitespace-removal markers are written as they are and read as they are *)
Lemma reads_rune3 a b c : decode_rune [a; b; c] = Some (match decode_rune [a; b; c] with Some (r, _) => r | None => 0 end, 3%nat) ->
  a <> 34 -> a <> 10 -> a <> 92 ->
  encode_rune (match decode_rune [a; b; c] with Some (r, _) => r | None => 0 end) = [a; b; c] ->
  (forall rest, decode_rune (a :: b :: c :: rest) = decode_rune [a; b; c]) ->
  reads_as [a; b; c] [a; b; c].
Proof.
  intros Hd H1 H2 H3 He Hrest. exists 1%nat. split; [cbn; lia|]. intros rest fu. cbn [plus app unquote_body].
  destruct (N.eqb_spec a 34); [congruence|]. destruct (N.eqb_spec a 10); [congruence|]. cbn [orb].
  destruct (N.eqb_spec a 92); [congruence|]. rewrite Hrest, Hd, He. cbn [skipn]. reflexivity.
Qed.

Lemma reads_radioactive : reads_as [226; 152; 162] [226; 152; 162].
Proof.
  apply reads_rune3; try (intro; discriminate); try reflexivity.
Qed.

Lemma reads_marker_after : reads_as c_NukeAfter c_NukeAfter.
Proof.
  change c_NukeAfter with ([126] ++ [226; 152; 162] ++ [60]).
  apply reads_as_app; [apply reads_as_plain_char; repeat split; cbn; try lia; discriminate|].
  apply reads_as_app; [exact reads_radioactive|apply reads_as_plain_char; repeat split; cbn; try lia; discriminate].
Qed.

Lemma reads_marker_before : reads_as c_NukeBefore c_NukeBefore.
Proof.
  change c_NukeBefore with ([62] ++ [226; 152; 162] ++ [126]).
  apply reads_as_app; [apply reads_as_plain_char; repeat split; cbn; try lia; discriminate|].
  apply reads_as_app; [exact reads_radioactive|apply reads_as_plain_char; repeat split; cbn; try lia; discriminate].
Qed.

Section Seg.
Variable ind : nat.

Definition MS (m : bool) (st : est) : Prop := w_err (fst st) = None /\ snd st = loc_of ind m.

Definition Run (m : mode) (st : est) (m' : mode) (st' : est) (segs : list seg) : Prop :=
  MS (bool_of_mode m') st' /\ exists code, txt st' = txt st ++ code /\ denotes ind m m' code segs.

Lemma Run_refl (m : bool) st : MS m st -> Run m st m st [].
Proof. intro H. split; [destruct m; exact H|]. exists []. split; [rewrite app_nil_r; reflexivity|constructor]. Qed.

Lemma Run_trans m1 s1 m2 s2 m3 s3 a b : Run m1 s1 m2 s2 a -> Run m2 s2 m3 s3 b -> Run m1 s1 m3 s3 (a ++ b).
Proof.
  intros [_ (c1 & T1 & D1)] [M3 (c2 & T2 & D2)]. split; [exact M3|]. exists (c1 ++ c2).
  split; [rewrite T2, T1, app_assoc; reflexivity|eapply denotes_app; eassumption].
Qed.

Lemma Run_ms {m st} {m' : bool} {st' segs} : Run m st m' st' segs -> MS m' st'.
Proof. intros [H _]. destruct m'; exact H. Qed.

(** a static chunk, in either mode: opens a literal when none is open *)
Lemma chunk_run m p h st : MS m st -> reads_as p h -> Run m st true (tw_write_string_literal p st) [SLit h].
Proof.
  intros [He Hl] Hr. destruct st as [[o n l c a e] loc]. cbn [fst snd w_err] in *. subst e loc.
  destruct m; unfold tw_write_string_literal; cbn [snd loc_of Lo Lc wl_static wl_indent wl_unesc].
  - unfold wr, write, w_write. cbn [fst snd w_err]. split; [split; reflexivity|].
    exists p. split; [unfold txt; cbn [fst w_out rev]; rewrite concat_app; cbn; rewrite app_nil_r; reflexivity|].
    rewrite <- (app_nil_r p). apply d_lit; [exact Hr|constructor].
  - unfold wr, write, w_write, set_local. cbn [fst snd w_err]. split; [split; reflexivity|].
    exists (opener ind ++ p). split.
    + unfold txt, opener. cbn [fst w_out rev]. rewrite !concat_app. cbn [List.concat]. rewrite !app_nil_r, <- !app_assoc. reflexivity.
    + apply d_open. rewrite <- (app_nil_r p). apply d_lit; [exact Hr|constructor].
Qed.

(** static content written while a literal is open *)
Lemma step_run st st' h : LS (Lo ind) st -> LS (Lo ind) st' -> Step st st' h -> Run true st true st' [SLit h].
Proof.
  intros _ L' (p & T & R). split; [exact L'|]. exists p. split; [exact T|]. rewrite <- (app_nil_r p). apply d_lit; [exact R|constructor].
Qed.

(** a dynamic block, in either mode: closes the literal when one is open *)
Lemma close_after_var st : close_string_literal (after_var st) = after_var (close_string_literal st).
Proof.
  destruct st as [[o n l c a e] [i s eh u]]. destruct e; destruct eh; cbv; reflexivity.
Qed.

Lemma var_name_close st : var_name_of (close_string_literal st) = var_name_of st.
Proof.
  destruct st as [[o n l c a e] [i s eh u]]. destruct e; destruct eh; reflexivity.
Qed.

Lemma close_static_false st : wl_static (snd (close_string_literal st)) = false.
Proof.
  destruct st as [[o n l c a e] [i s eh u]]. destruct e; destruct eh; reflexivity.
Qed.

Lemma after_var_local st : snd (after_var st) = snd st.
Proof. destruct st as [[o n l c a e] loc]. unfold after_var, get_var_name. cbn [fst snd w_err]. destruct e; reflexivity. Qed.

Lemma tw_wri_from_open x st : wl_static (snd st) = true ->
  tw_wri x (after_var st) = tw_wri x (after_var (close_string_literal st)).
Proof.
  intro Hs. unfold tw_wri, tw_write_indent, close_if_static. rewrite !after_var_local, Hs, close_static_false, close_after_var. reflexivity.
Qed.

Lemma emit_dynamic_from_open sm t st : wl_static (snd st) = true ->
  emit_dynamic sm t st = emit_dynamic sm t (close_string_literal st).
Proof. intro Hs. unfold emit_dynamic. cbv zeta. rewrite var_name_close, (tw_wri_from_open _ st Hs). reflexivity. Qed.

Lemma emit_dynamic_quiet sm t st : quiet st -> quiet (emit_dynamic sm t st) /\ snd (emit_dynamic sm t st) = snd st.
Proof.
  intro Q. unfold emit_dynamic. cbv zeta.
  destruct (after_var_quiet st Q) as (Q1 & L1 & _ & _).
  match goal with |- context [tw_wri ?x (after_var st)] => destruct (tw_wri_quiet x _ Q1) as [Q2 L2] end.
  match goal with |- context [tw_wri ?y (tw_wri ?x (after_var st))] => destruct (tw_wri_quiet y _ Q2) as [Q3 L3] end.
  set (st3 := tw_wri _ (tw_wri _ (after_var st))) in *.
  assert (E3 : snd st3 = snd st) by (rewrite L3, L2, L1; reflexivity).
  destruct (wl_unesc (snd st3)).
  - destruct (write_formatted_text_txt sm t st3 Q3) as (Q5 & L5 & _).
    match goal with |- context [tw_wr ?x (write_formatted_text sm t st3)] => destruct (tw_wr_quiet x _ Q5) as [Q7 L7] end.
    match goal with |- context [tw_write_string_indent ?v ?s] => destruct (tw_write_string_indent_txt v s Q7) as (Q8 & L8 & _) end.
    split; [exact Q8|]. rewrite L8, L7, L5. exact E3.
  - destruct (tw_wr_quiet (lit "goht.EscapeString(") st3 Q3) as [Q4 L4].
    destruct (write_formatted_text_txt sm t _ Q4) as (Q5 & L5 & _).
    destruct (tw_wr_quiet (lit ")") _ Q5) as [Q6 L6].
    match goal with |- context [tw_wr ?x (tw_wr (lit ")") ?s)] => destruct (tw_wr_quiet x _ Q6) as [Q7 L7] end.
    match goal with |- context [tw_write_string_indent ?v ?s] => destruct (tw_write_string_indent_txt v s Q7) as (Q8 & L8 & _) end.
    split; [exact Q8|]. rewrite L8, L7, L6, L5, L4. exact E3.
Qed.

Lemma dyn_run m sm t st : MS m st -> Run m st false (emit_dynamic sm t st) [SDyn t].
Proof.
  intros [He Hl].
  assert (Hclosed : forall s, w_err (fst s) = None -> snd s = Lc ind -> Run false s false (emit_dynamic sm t s) [SDyn t]).
  { intros s Hes Hls. assert (Q : quiet s) by (split; [exact Hes|rewrite Hls; reflexivity]).
    destruct (emit_dynamic_quiet sm t s Q) as [[Qe _] Ql]. split; [split; [exact Qe|rewrite Ql; exact Hls]|].
    exists (dyn_code ind (lit "__var" ++ itoa (N.of_nat (S (w_num (fst s))))) t). split.
    - rewrite (dynamic_text_code sm t s Q). cbv zeta. rewrite Hls. cbn [Lc wl_indent wl_unesc]. unfold dyn_code. rewrite <- !app_assoc. reflexivity.
    - rewrite <- (app_nil_r (dyn_code ind _ t)). apply d_dyn. constructor. }
  destruct m.
  - assert (Hs : wl_static (snd st) = true) by (rewrite Hl; reflexivity).
    rewrite (emit_dynamic_from_open sm t st Hs).
    destruct (close_string_literal_txt st He) as ([Ec Sc] & Ic & Uc & Tc).
    assert (Lcl : snd (close_string_literal st) = Lc ind).
    { clear - Hl He. destruct st as [[o n l c a e] loc]. cbn [fst snd w_err] in *. subst e loc.
      unfold close_string_literal, add_err_handler, wr, write, w_write, set_local. cbn. reflexivity. }
    destruct (Hclosed _ Ec Lcl) as [M (code & T & D)]. split; [exact M|].
    exists (close_text (Lo ind) ++ code). split; [rewrite T, Tc, Hl, <- app_assoc; reflexivity|]. apply d_close. exact D.
  - apply Hclosed; assumption.
Qed.

Lemma close_from_open st : MS true st ->
  MS false (close_string_literal st) /\ txt (close_string_literal st) = txt st ++ close_text (Lo ind).
Proof.
  intros [He Hl]. destruct (close_string_literal_txt st He) as ([Ec _] & _ & _ & Tc). rewrite Hl in Tc. split; [|exact Tc].
  split; [exact Ec|]. clear - Hl He. destruct st as [[o n l c a e] loc]. cbn [fst snd w_err] in *. subst e loc.
  unfold close_string_literal, add_err_handler, wr, write, w_write, set_local. cbn. reflexivity.
Qed.

(** an indented line of Go code, in either mode: closes the literal when one is open *)
Lemma tw_wri_run m x st : MS m st ->
  MS false (tw_wri x st) /\ txt (tw_wri x st) = txt st ++ (if m then close_text (Lo ind) else []) ++ tabs ind ++ x.
Proof.
  intro H.
  assert (Hc : forall s, MS false s -> MS false (tw_wri x s) /\ txt (tw_wri x s) = txt s ++ tabs ind ++ x).
  { intros s [He Hl]. assert (Q : quiet s) by (split; [exact He|rewrite Hl; reflexivity]).
    destruct (tw_wri_quiet x s Q) as [[E1 _] L1]. split; [split; [exact E1|rewrite L1; exact Hl]|].
    rewrite tw_wri_txt by exact Q. rewrite Hl. reflexivity. }
  destruct m.
  - destruct (close_from_open st H) as [Mc Tc].
    assert (E : tw_wri x st = tw_wri x (close_string_literal st)).
    { unfold tw_wri, tw_write_indent, close_if_static. destruct H as [_ Hl]. rewrite Hl, close_static_false. reflexivity. }
    rewrite E. destruct (Hc _ Mc) as [M T]. split; [exact M|]. rewrite T, Tc, <- app_assoc. reflexivity.
  - destruct (Hc _ H) as [M T]. split; [exact M|]. rewrite T. reflexivity.
Qed.
End Seg.

(** * inside an unescaped context (`!=`, `! text`): the same two modes with the unescape flag set *)
Section Raw.
Variable ind : nat.
Definition Lou : wlocal := mkWL ind true true true.
Definition Lcu : wlocal := mkWL ind false false true.
Definition MSu (m : bool) (st : est) : Prop := w_err (fst st) = None /\ snd st = (if m then Lou else Lcu).
Definition Runu (m : bool) (st : est) (m' : bool) (st' : est) (segs : list seg) : Prop :=
  MSu m' st' /\ exists code, txt st' = txt st ++ code /\ denotes ind m m' code segs.

Lemma Runu_refl m st : MSu m st -> Runu m st m st [].
Proof. intro H. split; [exact H|]. exists []. split; [rewrite app_nil_r; reflexivity|constructor]. Qed.

Lemma Runu_trans m1 s1 m2 s2 m3 s3 a b : Runu m1 s1 m2 s2 a -> Runu m2 s2 m3 s3 b -> Runu m1 s1 m3 s3 (a ++ b).
Proof.
  intros [_ (c1 & T1 & D1)] [M3 (c2 & T2 & D2)]. split; [exact M3|]. exists (c1 ++ c2).
  split; [rewrite T2, T1, app_assoc; reflexivity|eapply denotes_app; eassumption].
Qed.

Lemma chunk_run_u m p h st : MSu m st -> reads_as p h -> Runu m st true (tw_write_string_literal p st) [SLit h].
Proof.
  intros [He Hl] Hr. destruct st as [[o n l c a e] loc]. cbn [fst snd w_err] in *. subst e loc.
  destruct m; unfold tw_write_string_literal; cbn [snd Lou Lcu wl_static wl_indent wl_unesc].
  - unfold wr, write, w_write. cbn [fst snd w_err]. split; [split; reflexivity|].
    exists p. split; [unfold txt; cbn [fst w_out rev]; rewrite concat_app; cbn; rewrite app_nil_r; reflexivity|].
    rewrite <- (app_nil_r p). apply d_lit; [exact Hr|constructor].
  - unfold wr, write, w_write, set_local. cbn [fst snd w_err]. split; [split; reflexivity|].
    exists (opener ind ++ p). split.
    + unfold txt, opener. cbn [fst w_out rev]. rewrite !concat_app. cbn [List.concat]. rewrite !app_nil_r, <- !app_assoc. reflexivity.
    + apply d_open. rewrite <- (app_nil_r p). apply d_lit; [exact Hr|constructor].
Qed.

Lemma raw_run m sm t st : MSu m st -> Runu m st false (emit_dynamic sm t st) [SRaw t].
Proof.
  intros [He Hl].
  assert (Hclosed : forall s, w_err (fst s) = None -> snd s = Lcu -> Runu false s false (emit_dynamic sm t s) [SRaw t]).
  { intros s Hes Hls. assert (Q : quiet s) by (split; [exact Hes|rewrite Hls; reflexivity]).
    destruct (emit_dynamic_quiet sm t s Q) as [[Qe _] Ql]. split; [split; [exact Qe|rewrite Ql; exact Hls]|].
    exists (raw_code ind (lit "__var" ++ itoa (N.of_nat (S (w_num (fst s))))) t). split.
    - rewrite (dynamic_text_code sm t s Q). cbv zeta. rewrite Hls. cbn [Lcu wl_indent wl_unesc]. unfold raw_code. rewrite <- !app_assoc. reflexivity.
    - rewrite <- (app_nil_r (raw_code ind _ t)). apply d_raw. constructor. }
  destruct m.
  - assert (Hs : wl_static (snd st) = true) by (rewrite Hl; reflexivity).
    rewrite (emit_dynamic_from_open sm t st Hs).
    destruct (close_string_literal_txt st He) as ([Ec Sc] & Ic & Uc & Tc).
    assert (Lcl : snd (close_string_literal st) = Lcu).
    { clear - Hl He. destruct st as [[o n l c a e] loc]. cbn [fst snd w_err] in *. subst e loc.
      unfold close_string_literal, add_err_handler, wr, write, w_write, set_local. cbn. reflexivity. }
    destruct (Hclosed _ Ec Lcl) as [M (code & T & D)]. split; [exact M|].
    exists (close_text (Lo ind) ++ code). split; [rewrite T, Tc, Hl, <- app_assoc; reflexivity|]. apply d_close. exact D.
  - apply Hclosed; assumption.
Qed.
End Raw.

(** * the fragment: static trees, interpolation, scripts, and simple `-` blocks (if / for / switch without else) *)
Definition dyn_text (o : token) : Prop := static_text o \/ toktype_eqb (t_typ o) TDynamicText = true.

(** a `-` line that opens a block which the emitter closes itself: an opening statement written without braces,
    not an `else`, not starting with a closing brace *)
Definition block_stmt (o : token) : Prop :=
  let code := go_trim_space (t_lit o) in
  any_prefix c_openingStatements code = true /\ has_suffix (lit "{") code = false /\
  has_prefix (lit "}") code = false.

(** `- else` / `- else if` lines continue the block of the `-` line before them *)
Definition is_else (n : node) : bool :=
  match n with Node (KSilent o _ _) _ => any_prefix c_elseStatements (t_lit o) | _ => false end.
(** a `-` line that opens a block of its own: an opening statement with nested content *)
Definition is_block (n : node) : bool :=
  match n with
  | Node (KSilent o _ _) (_ :: _) =>
    any_prefix c_openingStatements (go_trim_space (t_lit o)) && negb (has_suffix (lit "{") (go_trim_space (t_lit o)))
  | _ => false
  end.
(** a `-` line that opens a block with a brace of its own (`- if x {`): the template closes it with a `- }` line *)
Definition manual_open (n : node) : bool :=
  match n with
  | Node (KSilent o _ _) (_ :: _) =>
    any_prefix c_openingStatements (go_trim_space (t_lit o)) && has_suffix (lit "{") (go_trim_space (t_lit o))
  | _ => false
  end.
(** does the list start with a `-` line that begins with a closing brace *)
Definition closes (r : list node) : bool :=
  match r with Node (KSilent o _ _) _ :: _ => has_prefix (lit "}") (t_lit o) | _ => false end.
(** does the list start with an else line: the block before it is left open *)
Definition ho (r : list node) : bool := match r with n :: _ => is_else n | [] => false end.
(** an else line only directly after a `-` block *)
Fixpoint adj_ok (l : list node) : Prop :=
  match l with
  | c :: r => (ho r = true -> is_block c = true) /\ (is_block c = true -> closes r = false) /\
              (manual_open c = true -> closes r = true) /\ adj_ok r
  | [] => True
  end.
Definition kids_ok (l : list node) : Prop := ho l = false /\ adj_ok l.

(** attributes: bare, with a static value, with a dynamic value `name: #{expr}`, or conditional `name?: #{cond}` *)
Definition dyn_attr (a : attribute) : Prop :=
  Forall plain (a_name a) /\
  (a_value a = [] \/ (a_bool a = false /\ a_dyn a = false /\ bytes_ok (a_value a)) \/
   (a_bool a = false /\ a_dyn a = true) \/ a_bool a = true).

Definition attr_segs (a : attribute) : list seg :=
  match a_value a with
  | [] => [SLit (lit " " ++ a_name a)]
  | v =>
    if a_bool a then [SBlock (lit "if " ++ v) [SLit (lit " " ++ a_name a)]]
    else if a_dyn a then [SLit (lit " " ++ a_name a ++ lit "=" ++ [34]); SDynQ (a_origin a)]
    else [SLit (lit " " ++ a_name a ++ lit "=" ++ [34]); SLit (html_escape v ++ [34])]
  end.

(** the value of a class attribute: an expression, or a quoted string that Go reads *)
Definition quoted_value (c : token) : Prop :=
  t_typ c = TAttrEscapedValue /\ exists n, go_unquote (t_lit c) = Some n /\ bytes_ok n.
Definition class_value (c : token) : Prop := t_typ c = TAttrDynamicValue \/ quoted_value c.
Definition is_dyn_value (c : token) : bool := toktype_eqb (t_typ c) TAttrDynamicValue.

(** ` class="..."` for class shorthands and a quoted class attribute: the names joined with blanks *)
Definition class_html_names (l : list token) : bytes :=
  match l with [] => [] | _ => lit " class=" ++ [34] ++ html_escape (join (lit " ") (class_names l)) ++ [34] end.

Definition dyn_elem (d : elem) : Prop :=
  bytes_ok (e_tag d) /\ bytes_ok (e_id d) /\ Forall static_class (e_classes d) /\
  (forall o, e_objref d = Some o -> t_typ o = TObjectRef) /\
  (forall c, omap_get (e_attrs d) (lit "class") = Some c -> class_value (a_origin c)) /\
  Forall (fun kv => dyn_attr (snd kv)) (e_attrs d).

Definition id_class_html (d : elem) : bytes :=
  match e_id d with [] => [] | i => lit " id=" ++ [34] ++ html_escape i ++ [34] end ++ class_html (e_classes d).

(** a [class] attribute is not written as an attribute: its value joins the class list *)
Definition elem_attrs (d : elem) : list (bytes * attribute) :=
  match omap_get (e_attrs d) (lit "class") with
  | Some _ => omap_delete (e_attrs d) (lit "class")
  | None => e_attrs d
  end.
Definition attrs_segs (d : elem) : list seg := List.concat (map (fun kv => attr_segs (snd kv)) (elem_attrs d)).

(** the arguments of goht.BuildClassList as the emitter writes them *)
Definition class_arg_text (c : token) : bytes :=
  match t_typ c with
  | TObjectRef => lit "goht.ObjectClass(" ++ t_lit c ++ lit ")"
  | TAttrDynamicValue => t_lit c
  | TClass => go_quote (t_lit c)
  | _ => t_lit c
  end.
Fixpoint class_args_text (l : list token) : bytes :=
  match l with
  | [] => []
  | c :: rest => class_arg_text c ++ (match rest with [] => [] | _ => lit ", " end) ++ class_args_text rest
  end.

Definition id_html (d : elem) : bytes := match e_id d with [] => [] | i => lit " id=" ++ [34] ++ html_escape i ++ [34] end.

Definition id_segs (d : elem) : list seg := match e_id d with [] => [] | _ => [SLit (id_html d)] end.

(** everything between the tag name and the closing `>` *)
Definition elem_segs (d : elem) : list seg :=
  match omap_get (e_attrs d) (lit "class") with
  | None =>
    match e_objref d with
    | None => [SLit (id_class_html d)]
    | Some o => [SObjId (t_lit o)] ++ id_segs d ++ [SClassList (class_args_text (e_classes d ++ [o]))]
    end
  | Some c =>
    (* the value of a dynamic class attribute is the last argument of goht.BuildClassList *)
    match e_objref d with
    | None =>
      if is_dyn_value (a_origin c) then id_segs d ++ [SClassList (class_args_text (e_classes d ++ [a_origin c]))]
      else (* a quoted value is one more class name in the literal *)
           [SLit (id_html d ++ class_html_names (e_classes d ++ [a_origin c]))]
    | Some o => [SObjId (t_lit o)] ++ id_segs d ++ [SClassList (class_args_text ((e_classes d ++ [o]) ++ [a_origin c]))]
    end
  end ++ attrs_segs d ++ match e_attrs_cmd d with [] => [] | cmd => [SAttrList cmd] end.

(** what may follow `!` on a line: text (written without escaping) and expressions *)
Definition raw_child (n : node) : Prop :=
  match n with
  | Node (KText o) _ => toktype_eqb (t_typ o) TDynamicText = true \/
                        (bytes_ok (t_lit o) /\ toktype_eqb (t_typ o) TDynamicText = false)
  | Node (KScript _) _ => True
  | _ => False
  end.

(** preserved text: the line break that ends it is written as an entity *)
Definition preserve_html (t : bytes) : bytes :=
  let t' := trim_suffix [10] t in
  if negb (Nat.eqb (List.length t') (List.length t)) then t' ++ lit "&#x000A;" else t.

Definition raw_segs (n : node) : list seg :=
  match n with
  | Node (KText o) _ => if toktype_eqb (t_typ o) TDynamicText then [SRaw o]
                        else if toktype_eqb (t_typ o) TPreserveText then [SLit (preserve_html (t_lit o))] else [SLit (t_lit o)]
  | Node (KScript o) _ => [SRaw o]
  | _ => []
  end.

Fixpoint dyn_node (n : node) : Prop :=
  match n with
  | Node k ch =>
    let all := (fix all (l : list node) : Prop := match l with [] => True | c :: r => dyn_node c /\ all r end) in
    match k with
    | KElement _ _ d => dyn_elem d /\ kids_ok ch /\ all ch
    | KText o => dyn_text o
    | KScript _ => True
    | KNewLine _ => True
    | KDoctype _ => True
    | KComment o _ => (t_lit o <> [] /\ bytes_ok (t_lit o)) \/ (t_lit o = [] /\ kids_ok ch /\ all ch)
    | KFilter FJavaScript _ _ | KFilter FCss _ _ => kids_ok ch /\ all ch
    | KFilter FText o _ => (t_lit o = lit "escaped" /\ kids_ok ch /\ all ch) \/ (t_lit o = lit "plain" /\ Forall raw_child ch) \/
                           (t_lit o = lit "preserve" /\ Forall raw_child ch)
    | KSilent o _ _ =>
      match ch with
      | [] => any_prefix c_elseStatements (t_lit o) = false                                                (* a Go line, `- }` *)
      | _ => (block_stmt o \/                                                                             (* a block *)
              (any_prefix c_openingStatements (go_trim_space (t_lit o)) = false /\
               any_prefix c_elseStatements (t_lit o) = false) \/                                           (* `- case x:`, `- } else {` *)
              (any_prefix c_openingStatements (go_trim_space (t_lit o)) = true /\
               has_suffix (lit "{") (go_trim_space (t_lit o)) = true /\
               any_prefix c_elseStatements (t_lit o) = false))                                             (* `- if x {` *)
             /\ kids_ok ch /\ all ch
      end
    | KUnescape _ _ => Forall raw_child ch
    | KChildren _ => True
    | KRender _ _ => kids_ok ch /\ all ch
    | _ => False
    end
  end.

(** the segments of a node; [nc]: it continues a chain, [fl]: the chain goes on after it *)
Fixpoint segs_of (nc fl : bool) (n : node) : list seg :=
  match n with
  | Node k ch =>
    let kids := (fix kids (nc : bool) (l : list node) : list seg :=
                   match l with
                   | [] => []
                   | c :: r => segs_of nc (is_block c && ho r) c ++ kids (is_block c && ho r) r
                   end) in
    match k with
    | KElement _ _ d =>
      (if e_nuke_outer d then [SLit c_NukeBefore] else []) ++
      [SLit (lit "<" ++ e_tag d)] ++ elem_segs d ++ [SLit (lit ">")] ++
      (if e_selfclosing d then []
       else (if e_nuke_inner d then [SLit c_NukeAfter] else []) ++
            (if only_newline ch then [] else kids false ch) ++
            (if e_nuke_inner d then [SLit c_NukeBefore] else []) ++
            [SLit (lit "</" ++ e_tag d ++ lit ">"); SLit (if e_nuke_outer d then c_NukeAfter else [10])])
    | KText o => if toktype_eqb (t_typ o) TDynamicText then [SDyn o] else [SLit (text_html o)]
    | KScript o => [SDyn o]
    | KNewLine _ => [SLit [10]]
    | KDoctype _ => [SLit (lit "<!DOCTYPE html>")]
    | KComment o _ =>
      match t_lit o with
      | [] => [SLit (lit "<!--")] ++ kids false ch ++ [SLit (lit "-->" ++ [10])]
      | text => [SLit (lit "<!--" ++ html_escape text ++ lit "-->" ++ [10])]
      end
    | KFilter FJavaScript _ _ => [SLit (lit "<script>" ++ [10])] ++ kids false ch ++ [SLit (lit "</script>")]
    | KFilter FCss _ _ => [SLit (lit "<style>" ++ [10])] ++ kids false ch ++ [SLit (lit "</style>")]
    | KFilter FText o _ => if beqb (t_lit o) (lit "plain") then List.concat (map raw_segs ch)
                           else if beqb (t_lit o) (lit "preserve") then List.concat (map raw_segs ch) ++ [SLit [10]]
                           else kids false ch
    | KSilent o _ _ =>
      let stmt := go_trim_space (t_lit o) in
      let body := kids false ch in
      match ch with
      | [] => [SStmt stmt]
      | _ =>
        if any_prefix c_openingStatements stmt && negb (has_suffix (lit "{") stmt) then
          [match nc, fl with
           | false, false => SBlock stmt body
           | false, true => SBlockOpen stmt body
           | true, true => SBlockCont stmt body
           | true, false => SBlockLast stmt body
           end]
        else [SLine stmt body]
      end
    | KUnescape _ _ => List.concat (map raw_segs ch)
    | KChildren _ => [SChildren]
    | KRender o _ => [SRender (t_lit o) (match ch with [] => None | _ => Some (kids false ch) end)]
    | _ => []
    end
  end.

Fixpoint segs_list (nc : bool) (l : list node) : list seg :=
  match l with
  | [] => []
  | c :: r => segs_of nc (is_block c && ho r) c ++ segs_list (is_block c && ho r) r
  end.

Lemma segs_kids_eq : forall l nc,
  (fix kids (nc : bool) (l : list node) : list seg :=
     match l with [] => [] | c :: r => segs_of nc (is_block c && ho r) c ++ kids (is_block c && ho r) r end) nc l = segs_list nc l.
Proof. induction l as [|c r IH]; intro nc; [reflexivity|]. cbn [segs_list]. rewrite IH. reflexivity. Qed.

Lemma dyn_all_eq l : (fix all (l : list node) : Prop := match l with [] => True | c :: r => dyn_node c /\ all r end) l <-> Forall dyn_node l.
Proof. induction l as [|c r IH]; [split; constructor|]. split; [intros [H1 H2]; constructor; [exact H1|apply IH; exact H2]|intro H; inversion H; split; [assumption|apply IH; assumption]]. Qed.

(** attributes, from either mode *)
Lemma attr_bool_run sm ind (name value : bytes) (origin : token) (m : bool) st :
  Forall plain name -> MS ind m st ->
  Run ind m st false
    (tw_wri (lit "}" ++ [10])
       (set_local (tw_close (tw_write_string_literal (chunk_attr_name name)
          (set_local (tw_wr (lit " {" ++ [10]) (tw_write_add sm value origin (tw_wri (lit "if ") st)))
             (indent_local (snd (tw_wr (lit " {" ++ [10]) (tw_write_add sm value origin (tw_wri (lit "if ") st)))) 1))))
          (snd (tw_wr (lit " {" ++ [10]) (tw_write_add sm value origin (tw_wri (lit "if ") st))))))
    [SBlock (lit "if " ++ value) [SLit (lit " " ++ name)]].
Proof.
  intros Hname H. destruct (chunk_attr_name_ok name Hname) as [Rn _].
  destruct (tw_wri_run ind m (lit "if ") st H) as [M1 T1].
  generalize dependent (tw_wri (lit "if ") st). intros st1 M1 T1.
  assert (Q1 : quiet st1) by (destruct M1 as [A B]; split; [exact A|rewrite B; reflexivity]).
  destruct (tw_write_add_quiet sm value origin st1 Q1) as [Q3 L3]. pose proof (tw_write_add_txt sm value origin st1 Q1) as T3.
  generalize dependent (tw_write_add sm value origin st1). intros st3 Q3 L3 T3.
  destruct (tw_wr_quiet (lit " {" ++ [10]) st3 Q3) as [Q4 L4]. pose proof (tw_wr_txt (lit " {" ++ [10]) st3 Q3) as T4.
  generalize dependent (tw_wr (lit " {" ++ [10]) st3). intros st4 Q4 L4 T4.
  assert (E4 : snd st4 = Lc ind) by (rewrite L4, L3; exact (proj2 M1)).
  assert (Mb : MS (S ind) false (set_local st4 (indent_local (snd st4) 1))).
  { split; [exact (proj1 Q4)|]. cbn [set_local snd]. rewrite E4. unfold indent_local, Lc, loc_of. cbn [wl_indent wl_static wl_errh wl_unesc]. rewrite Nat.add_1_r. reflexivity. }
  pose proof (chunk_run (S ind) false _ _ _ Mb Rn) as R5. pose proof (Run_ms (S ind) R5) as M5. destruct R5 as [_ (body_code & T5 & D5)].
  rewrite txt_set_local in T5.
  generalize dependent (tw_write_string_literal (chunk_attr_name name) (set_local st4 (indent_local (snd st4) 1))). intros st5 T5 M5.
  destruct (close_from_open (S ind) st5 M5) as [[E6 _] T6].
  assert (E6' : tw_close st5 = close_string_literal st5) by (unfold tw_close, close_if_static; rewrite (proj2 M5); reflexivity).
  assert (M6 : MS ind false (set_local (tw_close st5) (snd st4))) by (split; [rewrite E6'; cbn [set_local fst]; exact E6|cbn [set_local snd]; exact E4]).
  destruct (tw_wri_run ind false (lit "}" ++ [10]) _ M6) as [M7 T7].
  split; [exact M7|].
  exists ((if m then close_text (Lo ind) else []) ++ block_code ind (lit "if " ++ value) body_code true). split.
  - rewrite T7, txt_set_local, E6', T6, T5, T4, T3, T1. unfold block_code. rewrite ?app_nil_l. rewrite <- !app_assoc. reflexivity.
  - assert (Db : denotes ind false false (block_code ind (lit "if " ++ value) body_code true) [SBlock (lit "if " ++ value) [SLit (lit " " ++ name)]]).
    { rewrite <- (app_nil_r (block_code _ _ _ _)). apply d_block; [exact D5|constructor]. }
    destruct m; [apply d_close; exact Db|exact Db].
Qed.

Lemma attr_dyn_run sm ind (name : bytes) (origin : token) (m : bool) st :
  Forall plain name -> MS ind m st ->
  Run ind m st false
    (tw_wr (lit ")+""\""""); __err != nil { return }" ++ [10])
       (write_formatted_text sm origin (tw_wri (write_string_open ++ lit "goht.EscapeString(") (tw_write_string_literal (chunk_attr_open name) st))))
    [SLit (lit " " ++ name ++ lit "=" ++ [34]); SDynQ origin].
Proof.
  intros Hname H. destruct (chunk_attr_name_ok name Hname) as [_ Ro].
  pose proof (chunk_run ind m _ _ st H Ro) as R1. pose proof (Run_ms ind R1) as M1.
  generalize dependent (tw_write_string_literal (chunk_attr_open name) st). intros st1 R1 M1.
  destruct (tw_wri_run ind true (write_string_open ++ lit "goht.EscapeString(") st1 M1) as [M2 T2].
  generalize dependent (tw_wri (write_string_open ++ lit "goht.EscapeString(") st1). intros st2 M2 T2.
  assert (Q2 : quiet st2) by (destruct M2 as [A B]; split; [exact A|rewrite B; reflexivity]).
  destruct (write_formatted_text_txt sm origin st2 Q2) as (Q3 & L3 & T3).
  destruct (tw_wr_quiet (lit ")+""\""""); __err != nil { return }" ++ [10]) _ Q3) as [Q4 L4].
  pose proof (tw_wr_txt (lit ")+""\""""); __err != nil { return }" ++ [10]) _ Q3) as T4.
  change [SLit (lit " " ++ name ++ lit "=" ++ [34]); SDynQ origin] with ([SLit (lit " " ++ name ++ lit "=" ++ [34])] ++ [SDynQ origin]).
  eapply Run_trans; [exact R1|].
  split; [split; [exact (proj1 Q4)|rewrite L4, L3; exact (proj2 M2)]|].
  exists (close_text (Lo ind) ++ attr_dyn_code ind origin). split.
  - rewrite T4, T3, T2. unfold attr_dyn_code. rewrite <- !app_assoc. reflexivity.
  - apply d_close. rewrite <- (app_nil_r (attr_dyn_code _ _)). apply d_attr. constructor.
Qed.

Lemma render_attrs_run sm ind (l : list (bytes * attribute)) : forall (m : bool) st,
  Forall (fun kv => dyn_attr (snd kv)) l -> MS ind m st ->
  exists m' : bool, Run ind m st m' (render_attrs sm l st) (List.concat (map (fun kv => attr_segs (snd kv)) l)).
Proof.
  induction l as [|[k a] rest IH]; intros m st Hall H; [exists m; apply Run_refl; exact H|].
  inversion Hall as [|? ? [Hname Hval] Hrest]; subst. cbn [snd] in *. cbn [render_attrs map List.concat]. cbv zeta.
  destruct (chunk_attr_name_ok (a_name a) Hname) as [Rn Ro].
  unfold attr_segs at 1. cbn [snd].
  destruct (a_value a) as [|v0 v] eqn:Ev.
  - pose proof (chunk_run ind m _ _ st H Rn) as R1.
    destruct (IH true _ Hrest (Run_ms ind R1)) as (m2 & R2). exists m2. eapply Run_trans; [exact R1|exact R2].
  - destruct (a_bool a) eqn:Eb.
    + pose proof (attr_bool_run sm ind (a_name a) (v0 :: v) (a_origin a) m st Hname H) as R1.
      destruct (IH false _ Hrest (Run_ms ind R1)) as (m2 & R2). exists m2. eapply Run_trans; [exact R1|exact R2].
    + destruct Hval as [Hv|[(_ & Hd & Hok)|[(_ & Hd)|Hb]]]; try discriminate; try congruence.
      * rewrite Hd. pose proof (chunk_run ind m _ _ st H Ro) as R1.
        destruct (chunk_attr_value_ok (v0 :: v) Hok) as [Rv _].
        pose proof (chunk_run ind true _ _ _ (Run_ms ind R1) Rv) as R2.
        destruct (IH true _ Hrest (Run_ms ind R2)) as (m3 & R3). exists m3.
        change [SLit (lit " " ++ a_name a ++ lit "=" ++ [34]); SLit (html_escape (v0 :: v) ++ [34])]
          with ([SLit (lit " " ++ a_name a ++ lit "=" ++ [34])] ++ [SLit (html_escape (v0 :: v) ++ [34])]).
        eapply Run_trans; [eapply Run_trans; [exact R1|exact R2]|exact R3].
      * rewrite Hd. pose proof (attr_dyn_run sm ind (a_name a) (a_origin a) m st Hname H) as R1.
        destruct (IH false _ Hrest (Run_ms ind R1)) as (m2 & R2). exists m2. eapply Run_trans; [exact R1|exact R2].
Qed.


Lemma after_var_facts st : w_err (fst st) = None ->
  w_err (fst (after_var st)) = None /\ snd (after_var st) = snd st /\ txt (after_var st) = txt st.
Proof. destruct st as [[o n l c a e] loc]. cbn [fst w_err]. intros ->. unfold after_var, get_var_name, txt. cbn. auto. Qed.

(** the arguments of BuildClassList, written one after the other *)
Lemma write_class_args_txt sm (l : list token) : forall st, quiet st ->
  quiet (write_class_args sm l st) /\ snd (write_class_args sm l st) = snd st /\
  txt (write_class_args sm l st) = txt st ++ class_args_text l.
Proof.
  induction l as [|c rest IH]; intros st Q; [cbn; rewrite app_nil_r; auto|].
  cbn [write_class_args class_args_text]. cbv zeta.
  assert (H1 : quiet (match t_typ c with
                     | TObjectRef => tw_wr (lit "goht.ObjectClass(" ++ t_lit c ++ lit ")") st
                     | TAttrDynamicValue => tw_write_add sm (t_lit c) c st
                     | TClass => tw_wr (go_quote (t_lit c)) st
                     | _ => tw_wr (t_lit c) st end) /\
               snd (match t_typ c with
                     | TObjectRef => tw_wr (lit "goht.ObjectClass(" ++ t_lit c ++ lit ")") st
                     | TAttrDynamicValue => tw_write_add sm (t_lit c) c st
                     | TClass => tw_wr (go_quote (t_lit c)) st
                     | _ => tw_wr (t_lit c) st end) = snd st /\
               txt (match t_typ c with
                     | TObjectRef => tw_wr (lit "goht.ObjectClass(" ++ t_lit c ++ lit ")") st
                     | TAttrDynamicValue => tw_write_add sm (t_lit c) c st
                     | TClass => tw_wr (go_quote (t_lit c)) st
                     | _ => tw_wr (t_lit c) st end) = txt st ++ class_arg_text c).
  { unfold class_arg_text. destruct (t_typ c);
      first [ destruct (tw_write_add_quiet sm (t_lit c) c st Q) as [A B]; split; [exact A|split; [exact B|apply tw_write_add_txt; exact Q]]
            | match goal with |- quiet (tw_wr ?x st) /\ _ => destruct (tw_wr_quiet x st Q) as [A B]; split; [exact A|split; [exact B|apply tw_wr_txt; exact Q]] end ]. }
  destruct H1 as (Q1 & L1 & T1).
  match goal with |- context [write_class_args sm rest ?s2] => set (st2 := s2) end.
  assert (H2 : quiet st2 /\ snd st2 = snd st /\ txt st2 = txt st ++ class_arg_text c ++ match rest with [] => [] | _ => lit ", " end).
  { subst st2. destruct rest as [|c' rest'].
    - split; [exact Q1|]. split; [exact L1|]. rewrite T1, app_nil_r. reflexivity.
    - match goal with |- quiet (tw_wr ?x ?s) /\ _ => destruct (tw_wr_quiet x s Q1) as [A B]; split; [exact A|split; [rewrite B; exact L1|]]; rewrite (tw_wr_txt x s Q1), T1, <- app_assoc; reflexivity end. }
  destruct H2 as (Q2 & L2 & T2). clearbody st2.
  destruct (IH st2 Q2) as (Q3 & L3 & T3). split; [exact Q3|]. split; [rewrite L3; exact L2|].
  rewrite T3, T2, <- !app_assoc. reflexivity.
Qed.

Lemma error_handler_txt st : quiet st -> wl_errh (snd st) = false ->
  quiet (tw_write_error_handler st) /\ snd (tw_write_error_handler st) = snd st /\
  txt (tw_write_error_handler st) = txt st ++ tabs (wl_indent (snd st)) ++ lit "if __err != nil { return }" ++ [10].
Proof.
  intros [He Hs] Hh. unfold tw_write_error_handler, add_err_handler. rewrite Hs, Hh.
  match goal with |- context [wr ?x st] => destruct (wr_quiet x st He) as [E1 L1]; rewrite (wr_txt' x st He) end.
  split; [split; [exact E1|rewrite L1; exact Hs]|]. split; [exact L1|reflexivity].
Qed.

Lemma forallb_snoc_false {A} (f : A -> bool) l x : f x = false -> forallb f (l ++ [x]) = false.
Proof. intro H. induction l as [|y l IH]; cbn; [rewrite H; reflexivity|rewrite IH; apply Bool.andb_false_r]. Qed.

(** a block that builds a value with a runtime helper and writes it: BuildClassList / BuildAttributeList *)
Lemma helper_block_run ind m st (pre : bytes -> bytes) (fill : est -> est) (args : bytes) (w : bytes -> bytes) code :
  MS ind m st ->
  (forall s, quiet s -> quiet (fill s) /\ snd (fill s) = snd s /\ txt (fill s) = txt s ++ args) ->
  (forall v, code v = tabs ind ++ lit "var " ++ v ++ lit " string" ++ [10] ++ tabs ind ++ pre v ++ args ++ lit ")" ++ [10] ++
                      tabs ind ++ lit "if __err != nil { return }" ++ [10] ++ tabs ind ++ write_string_open ++ w v ++ lit "); __err != nil { return }" ++ [10]) ->
  let v := var_name_of st in
  let st' := tw_write_string_indent (w v) (tw_write_error_handler (tw_wr (lit ")" ++ [10]) (fill (tw_wri (pre v) (tw_wri (lit "var " ++ v ++ lit " string" ++ [10]) (after_var st)))))) in
  MS ind false st' /\ txt st' = txt st ++ (if m then close_text (Lo ind) else []) ++ code v.
Proof.
  intros [He Hl] Hfill Hcode. cbv zeta. set (v := var_name_of st).
  destruct (after_var_facts st He) as (E1 & L1 & T1).
  assert (M1 : MS ind m (after_var st)) by (split; [exact E1|rewrite L1; exact Hl]).
  destruct (tw_wri_run ind m (lit "var " ++ v ++ lit " string" ++ [10]) _ M1) as [M2 T2].
  set (s2 := tw_wri (lit "var " ++ v ++ lit " string" ++ [10]) (after_var st)) in *.
  destruct (tw_wri_run ind false (pre v) s2 M2) as [M3 T3]. set (s3 := tw_wri (pre v) s2) in *.
  assert (Q3 : quiet s3) by (destruct M3 as [A B]; split; [exact A|rewrite B; reflexivity]).
  destruct (Hfill s3 Q3) as (Q4 & L4 & T4). set (s4 := fill s3) in *.
  destruct (tw_wr_quiet (lit ")" ++ [10]) s4 Q4) as [Q5 L5]. pose proof (tw_wr_txt (lit ")" ++ [10]) s4 Q4) as T5.
  set (s5 := tw_wr (lit ")" ++ [10]) s4) in *.
  assert (E5 : snd s5 = Lc ind) by (rewrite L5, L4; exact (proj2 M3)).
  destruct (error_handler_txt s5 Q5) as (Q6 & L6 & T6); [rewrite E5; reflexivity|].
  set (s6 := tw_write_error_handler s5) in *.
  destruct (tw_write_string_indent_txt (w v) s6 Q6) as (Q7 & L7 & T7).
  split; [split; [exact (proj1 Q7)|rewrite L7, L6; exact E5]|].
  rewrite T7, T6, T5, T4, T3, T2, T1, L6, E5. cbn [Lc wl_indent]. rewrite Hcode. rewrite ?app_nil_l. rewrite <- !app_assoc. reflexivity.
Qed.

(** [obj] : the id from goht.ObjectID *)
Lemma objid_run sm ind (o : token) st : MS ind true st ->
  Run ind true st false
    (tw_wri (lit "}" ++ [10]) (tw_wri ([9] ++ write_string_open ++ lit """ id=\""""+" ++ var_name_of st ++ lit "+""\""""); __err != nil { return }" ++ [10])
       (tw_wr (lit "); " ++ var_name_of st ++ lit " != """" {" ++ [10]) (tw_write_add sm (t_lit o) o (tw_wri (lit "if " ++ var_name_of st ++ lit " := goht.ObjectID(") (after_var st))))))
    [SObjId (t_lit o)].
Proof.
  intros [He Hl]. destruct (after_var_facts st He) as (E1 & L1 & T1).
  set (v := var_name_of st).
  assert (M1 : MS ind true (after_var st)) by (split; [exact E1|rewrite L1; exact Hl]).
  destruct (tw_wri_run ind true (lit "if " ++ v ++ lit " := goht.ObjectID(") _ M1) as [M2 T2].
  set (s2 := tw_wri (lit "if " ++ v ++ lit " := goht.ObjectID(") (after_var st)) in *.
  assert (Q2 : quiet s2) by (destruct M2 as [A B]; split; [exact A|rewrite B; reflexivity]).
  destruct (tw_write_add_quiet sm (t_lit o) o s2 Q2) as [Q4 L4]. pose proof (tw_write_add_txt sm (t_lit o) o s2 Q2) as T4.
  set (s4 := tw_write_add sm (t_lit o) o s2) in *.
  destruct (tw_wr_quiet (lit "); " ++ v ++ lit " != """" {" ++ [10]) s4 Q4) as [Q5 L5]. pose proof (tw_wr_txt (lit "); " ++ v ++ lit " != """" {" ++ [10]) s4 Q4) as T5.
  set (s5 := tw_wr (lit "); " ++ v ++ lit " != """" {" ++ [10]) s4) in *.
  assert (M5 : MS ind false s5) by (split; [exact (proj1 Q5)|rewrite L5, L4; exact (proj2 M2)]).
  destruct (tw_wri_run ind false ([9] ++ write_string_open ++ lit """ id=\""""+" ++ v ++ lit "+""\""""); __err != nil { return }" ++ [10]) s5 M5) as [M6 T6].
  set (s6 := tw_wri ([9] ++ write_string_open ++ lit """ id=\""""+" ++ v ++ lit "+""\""""); __err != nil { return }" ++ [10]) s5) in *.
  destruct (tw_wri_run ind false (lit "}" ++ [10]) s6 M6) as [M7 T7].
  split; [exact M7|]. exists (close_text (Lo ind) ++ objid_code ind v (t_lit o)). split.
  - rewrite T7, T6, T5, T4, T2, T1. unfold objid_code. cbv iota. rewrite ?app_nil_l. rewrite <- !app_assoc. reflexivity.
  - apply d_close. rewrite <- (app_nil_r (objid_code _ _ _)). apply d_objid. constructor.
Qed.

Lemma id_run ind d (m : bool) st : bytes_ok (e_id d) -> MS ind m st ->
  exists m2 : bool, Run ind m st m2 (match e_id d with [] => st | i => tw_write_string_literal (chunk_id i) st end) (id_segs d).
Proof.
  intros Hid H. unfold id_segs, id_html. destruct (e_id d) as [|i0 i] eqn:Ei; [exists m; apply Run_refl; exact H|].
  destruct (chunk_id_ok (i0 :: i) Hid) as [Ri _]. exists true. apply chunk_run; assumption.
Qed.

(** a class list with an object reference or an expression in it goes through goht.BuildClassList *)
Definition all_quoted (l : list token) : bool :=
  forallb (fun c => negb (toktype_eqb (t_typ c) TObjectRef || toktype_eqb (t_typ c) TAttrDynamicValue)) l.

Lemma classlist_run sm ind (l : list token) (m : bool) st : all_quoted l = false -> MS ind m st ->
  Run ind m st false (render_class sm l st) [SClassList (class_args_text l)].
Proof.
  intros Hq H. unfold render_class. unfold all_quoted in Hq.
  destruct l as [|c0 cs] eqn:El; [discriminate|]. rewrite <- El in *. rewrite Hq. cbv zeta.
  destruct (helper_block_run ind m st (fun v => v ++ lit ", __err = goht.BuildClassList(") (write_class_args sm l) (class_args_text l)
              (fun v => lit """ class=\""""+" ++ v ++ lit "+""\""""") (fun v => classlist_code ind v (class_args_text l)) H
              (write_class_args_txt sm l)) as [M T].
  { intro v. unfold classlist_code. rewrite <- !app_assoc. reflexivity. }
  split; [exact M|]. exists ((if m then close_text (Lo ind) else []) ++ classlist_code ind (var_name_of st) (class_args_text l)).
  split; [exact T|].
  assert (D : denotes ind false false (classlist_code ind (var_name_of st) (class_args_text l)) [SClassList (class_args_text l)]).
  { rewrite <- (app_nil_r (classlist_code _ _ _)). apply d_classlist. constructor. }
  destruct m; [apply d_close; exact D|exact D].
Qed.

Lemma all_quoted_snoc_false l o : t_typ o = TObjectRef \/ t_typ o = TAttrDynamicValue -> all_quoted (l ++ [o]) = false.
Proof. intro Ht. unfold all_quoted. apply forallb_snoc_false. destruct Ht as [Ht|Ht]; rewrite Ht; reflexivity. Qed.

Lemma all_quoted_app_false l l' : all_quoted l = false -> all_quoted (l ++ l') = false.
Proof. unfold all_quoted. intro H. rewrite forallb_app, H. reflexivity. Qed.

(** a class list of shorthands and quoted values is one literal *)
Lemma quoted_class_facts l : Forall (fun c => static_class c \/ quoted_value c) l ->
  all_quoted l = true /\ first_unquote_failure l = None /\ Forall bytes_ok (class_names l).
Proof.
  induction 1 as [|c l Hc _ (IH1 & IH2 & IH3)]; [repeat split; constructor|].
  assert (Hc' : exists n, class_static_name c = Some n /\ bytes_ok n /\
                          negb (toktype_eqb (t_typ c) TObjectRef || toktype_eqb (t_typ c) TAttrDynamicValue) = true).
  { destruct Hc as [[Ht Hb]|(Ht & n & Hu & Hb)]; unfold class_static_name; rewrite Ht; [exists (t_lit c)|exists n]; repeat split; assumption. }
  destruct Hc' as (n & Hs & Hb & Hq). unfold all_quoted, class_names in *. cbn [map first_unquote_failure forallb].
  rewrite Hs, Hq, IH1, IH2. repeat split. constructor; assumption.
Qed.

Lemma render_class_quoted ind sm l st : Forall (fun c => static_class c \/ quoted_value c) l -> LS (Lo ind) st ->
  LS (Lo ind) (render_class sm l st) /\ Step st (render_class sm l st) (class_html_names l).
Proof.
  intros Hall H. destruct l as [|c l]; [split; [exact H|apply Step_refl]|].
  destruct (quoted_class_facts _ Hall) as (Hq & Hf & Hn). unfold render_class. unfold all_quoted in Hq. rewrite Hq, Hf.
  assert (Hok : bytes_ok (join (lit " ") (class_names (c :: l)))) by (apply bytes_ok_join; exact Hn).
  destruct (chunk_class_ok _ Hok) as [Rc _]. apply (chunk_step (Lo ind) eq_refl); assumption.
Qed.

Lemma attrlist_run ind (cmd : bytes) (m : bool) st : MS ind m st ->
  let v := var_name_of st in
  Run ind m st false
    (tw_write_string_indent v (tw_write_error_handler (tw_wri (v ++ lit ", __err = goht.BuildAttributeList(" ++ cmd ++ lit ")" ++ [10])
       (tw_wri (lit "var " ++ v ++ lit " string" ++ [10]) (after_var st)))))
    [SAttrList cmd].
Proof.
  intros [He Hl]. cbv zeta. set (v := var_name_of st).
  destruct (after_var_facts st He) as (E1 & L1 & T1).
  assert (M1 : MS ind m (after_var st)) by (split; [exact E1|rewrite L1; exact Hl]).
  destruct (tw_wri_run ind m (lit "var " ++ v ++ lit " string" ++ [10]) _ M1) as [M2 T2].
  set (s2 := tw_wri (lit "var " ++ v ++ lit " string" ++ [10]) (after_var st)) in *.
  destruct (tw_wri_run ind false (v ++ lit ", __err = goht.BuildAttributeList(" ++ cmd ++ lit ")" ++ [10]) s2 M2) as [M3 T3].
  set (s3 := tw_wri (v ++ lit ", __err = goht.BuildAttributeList(" ++ cmd ++ lit ")" ++ [10]) s2) in *.
  assert (Q3 : quiet s3) by (destruct M3 as [A B]; split; [exact A|rewrite B; reflexivity]).
  destruct (error_handler_txt s3 Q3) as (Q4 & L4 & T4); [rewrite (proj2 M3); reflexivity|].
  set (s4 := tw_write_error_handler s3) in *.
  destruct (tw_write_string_indent_txt v s4 Q4) as (Q5 & L5 & T5).
  split; [split; [exact (proj1 Q5)|rewrite L5, L4; exact (proj2 M3)]|].
  exists ((if m then close_text (Lo ind) else []) ++ attrlist_code ind v cmd). split.
  - rewrite T5, T4, T3, T2, T1, L4, (proj2 M3). cbn [loc_of Lc wl_indent]. unfold attrlist_code. rewrite ?app_nil_l. rewrite <- !app_assoc. reflexivity.
  - assert (D : denotes ind false false (attrlist_code ind v cmd) [SAttrList cmd]).
    { rewrite <- (app_nil_r (attrlist_code _ _ _)). apply d_attrlist. constructor. }
    destruct m; [apply d_close; exact D|exact D].
Qed.

Lemma render_attributes_run sm ind d st : dyn_elem d -> MS ind true st ->
  exists m' : bool, Run ind true st m' (render_attributes sm d st) (elem_segs d).
Proof.
  intros (Htag & Hid & Hcl & Hobj & Hca & Hat) H. unfold render_attributes, elem_segs, attrs_segs, elem_attrs. cbv zeta.
  destruct (omap_get (e_attrs d) (lit "class")) as [c|] eqn:Ec.
  { (* a class attribute: its value joins the class list, and no attribute of that name is written *)
    pose proof (Hca c eq_refl) as Hcv.
    assert (Hat' : Forall (fun kv => dyn_attr (snd kv)) (omap_delete (e_attrs d) (lit "class"))).
    { unfold omap_delete. apply Forall_forall. intros kv Hin. apply filter_In in Hin. rewrite Forall_forall in Hat. apply Hat. apply Hin. }
    assert (Hhead : exists (m3 : bool) st3,
              Run ind true st m3 st3
                (match e_objref d with
                 | None => if is_dyn_value (a_origin c) then id_segs d ++ [SClassList (class_args_text (e_classes d ++ [a_origin c]))]
                           else [SLit (id_html d ++ class_html_names (e_classes d ++ [a_origin c]))]
                 | Some o => [SObjId (t_lit o)] ++ id_segs d ++ [SClassList (class_args_text ((e_classes d ++ [o]) ++ [a_origin c]))]
                 end) /\
              st3 = render_class sm ((match e_objref d with Some o => e_classes d ++ [o] | None => e_classes d end) ++ [a_origin c])
                      (match e_id d with
                       | [] => match e_objref d with
                               | Some o => tw_wri (lit "}" ++ [10]) (tw_wri ([9] ++ write_string_open ++ lit """ id=\""""+" ++ var_name_of st ++ lit "+""\""""); __err != nil { return }" ++ [10])
                                              (tw_wr (lit "); " ++ var_name_of st ++ lit " != """" {" ++ [10]) (tw_write_add sm (t_lit o) o (tw_wri (lit "if " ++ var_name_of st ++ lit " := goht.ObjectID(") (after_var st)))))
                               | None => st end
                       | i => tw_write_string_literal (chunk_id i)
                                (match e_objref d with
                                 | Some o => tw_wri (lit "}" ++ [10]) (tw_wri ([9] ++ write_string_open ++ lit """ id=\""""+" ++ var_name_of st ++ lit "+""\""""); __err != nil { return }" ++ [10])
                                                (tw_wr (lit "); " ++ var_name_of st ++ lit " != """" {" ++ [10]) (tw_write_add sm (t_lit o) o (tw_wri (lit "if " ++ var_name_of st ++ lit " := goht.ObjectID(") (after_var st)))))
                                 | None => st end)
                       end)).
    { destruct (e_objref d) as [o|] eqn:Eo.
      - pose proof (objid_run sm ind o st H) as R1.
        match type of R1 with Run _ _ _ _ ?x _ => set (st1 := x) in * end.
        destruct (id_run ind d false st1 Hid (Run_ms ind R1)) as (m2 & R2).
        match type of R2 with Run _ _ _ _ ?x _ => set (st2 := x) in * end.
        pose proof (classlist_run sm ind ((e_classes d ++ [o]) ++ [a_origin c]) m2 st2 (all_quoted_app_false _ _ (all_quoted_snoc_false _ o (or_introl (Hobj o eq_refl)))) (Run_ms ind R2)) as R3.
        exists false, (render_class sm ((e_classes d ++ [o]) ++ [a_origin c]) st2). split; [|subst st2 st1; destruct (e_id d); reflexivity].
        eapply Run_trans; [exact R1|]. eapply Run_trans; [exact R2|exact R3].
      - destruct Hcv as [Hdv|Hqv].
        + unfold is_dyn_value. rewrite Hdv. cbn [toktype_eqb].
          destruct (id_run ind d true st Hid H) as (m2 & R2).
          match type of R2 with Run _ _ _ _ ?x _ => set (st2 := x) in * end.
          pose proof (classlist_run sm ind (e_classes d ++ [a_origin c]) m2 st2 (all_quoted_snoc_false _ _ (or_intror Hdv)) (Run_ms ind R2)) as R3.
          exists false, (render_class sm (e_classes d ++ [a_origin c]) st2). split; [|subst st2; destruct (e_id d); reflexivity].
          eapply Run_trans; [exact R2|exact R3].
        + unfold is_dyn_value. rewrite (proj1 Hqv). cbn [toktype_eqb].
          set (st2 := match e_id d with [] => st | i => tw_write_string_literal (chunk_id i) st end).
          assert (H2 : LS (Lo ind) st2 /\ Step st st2 (id_html d)).
          { subst st2. unfold id_html. destruct (e_id d) as [|i0 i] eqn:Ei; [split; [exact H|apply Step_refl]|].
            destruct (chunk_id_ok (i0 :: i) Hid) as [Ri _]. apply (chunk_step (Lo ind) eq_refl); assumption. }
          destruct H2 as [L2 S2].
          assert (Hall : Forall (fun c0 => static_class c0 \/ quoted_value c0) (e_classes d ++ [a_origin c])).
          { apply Forall_app. split; [eapply Forall_impl; [|exact Hcl]; intros a Ha; left; exact Ha|constructor; [right; exact Hqv|constructor]]. }
          destruct (render_class_quoted ind sm (e_classes d ++ [a_origin c]) st2 Hall L2) as [L3 S3].
          pose proof (step_run ind st _ _ H L3 (Step_trans _ _ _ _ _ S2 S3)) as R3.
          exists true, (render_class sm (e_classes d ++ [a_origin c]) st2). split; [exact R3|subst st2; destruct (e_id d); reflexivity]. }
    destruct Hhead as (m3 & st3 & R3 & E3). rewrite <- E3. clear E3.
    destruct (render_attrs_run sm ind (omap_delete (e_attrs d) (lit "class")) m3 st3 Hat' (Run_ms ind R3)) as (m4 & R4).
    set (st4 := render_attrs sm (omap_delete (e_attrs d) (lit "class")) st3) in *.
    destruct (e_attrs_cmd d) as [|c0 cmd] eqn:Ecmd.
    - exists m4. rewrite app_nil_r. eapply Run_trans; [exact R3|exact R4].
    - pose proof (attrlist_run ind (c0 :: cmd) m4 st4 (Run_ms ind R4)) as R5. cbv zeta in R5.
      exists false. match goal with |- Run _ _ _ _ _ (?a ++ ?b ++ ?c) => rewrite (app_assoc a b c) end.
      eapply Run_trans; [eapply Run_trans; [exact R3|exact R4]|exact R5]. }
  assert (Hhead : exists (m3 : bool) st3,
            Run ind true st m3 st3
              (match e_objref d with
               | None => [SLit (id_class_html d)]
               | Some o => [SObjId (t_lit o)] ++ id_segs d ++ [SClassList (class_args_text (e_classes d ++ [o]))]
               end) /\
            st3 = render_class sm (match e_objref d with Some o => e_classes d ++ [o] | None => e_classes d end)
                    (match e_id d with
                     | [] => match e_objref d with
                             | Some o => tw_wri (lit "}" ++ [10]) (tw_wri ([9] ++ write_string_open ++ lit """ id=\""""+" ++ var_name_of st ++ lit "+""\""""); __err != nil { return }" ++ [10])
                                            (tw_wr (lit "); " ++ var_name_of st ++ lit " != """" {" ++ [10]) (tw_write_add sm (t_lit o) o (tw_wri (lit "if " ++ var_name_of st ++ lit " := goht.ObjectID(") (after_var st)))))
                             | None => st end
                     | i => tw_write_string_literal (chunk_id i)
                              (match e_objref d with
                               | Some o => tw_wri (lit "}" ++ [10]) (tw_wri ([9] ++ write_string_open ++ lit """ id=\""""+" ++ var_name_of st ++ lit "+""\""""); __err != nil { return }" ++ [10])
                                              (tw_wr (lit "); " ++ var_name_of st ++ lit " != """" {" ++ [10]) (tw_write_add sm (t_lit o) o (tw_wri (lit "if " ++ var_name_of st ++ lit " := goht.ObjectID(") (after_var st)))))
                               | None => st end)
                     end)).
  { destruct (e_objref d) as [o|] eqn:Eo.
    - pose proof (objid_run sm ind o st H) as R1.
      match type of R1 with Run _ _ _ _ ?x _ => set (st1 := x) in * end.
      destruct (id_run ind d false st1 Hid (Run_ms ind R1)) as (m2 & R2).
      match type of R2 with Run _ _ _ _ ?x _ => set (st2 := x) in * end.
      pose proof (classlist_run sm ind (e_classes d ++ [o]) m2 st2 (all_quoted_snoc_false _ o (or_introl (Hobj o eq_refl))) (Run_ms ind R2)) as R3.
      exists false, (render_class sm (e_classes d ++ [o]) st2). split; [|subst st2 st1; destruct (e_id d); reflexivity].
      eapply Run_trans; [exact R1|]. eapply Run_trans; [exact R2|exact R3].
    - set (st2 := match e_id d with [] => st | i => tw_write_string_literal (chunk_id i) st end).
      assert (H2 : LS (Lo ind) st2 /\ Step st st2 (match e_id d with [] => [] | i => lit " id=" ++ [34] ++ html_escape i ++ [34] end)).
      { subst st2. destruct (e_id d) as [|i0 i] eqn:Ei; [split; [exact H|apply Step_refl]|].
        destruct (chunk_id_ok (i0 :: i) Hid) as [Ri _]. apply (chunk_step (Lo ind) eq_refl); assumption. }
      destruct H2 as [L2 S2].
      destruct (render_class_static (Lo ind) eq_refl sm (e_classes d) st2 Hcl L2) as [L3 S3].
      pose proof (step_run ind st _ _ H L3 (Step_trans _ _ _ _ _ S2 S3)) as R3. fold (id_class_html d) in R3.
      exists true, (render_class sm (e_classes d) st2). split; [exact R3|subst st2; destruct (e_id d); reflexivity]. }
  destruct Hhead as (m3 & st3 & R3 & E3). rewrite <- E3. clear E3.
  destruct (render_attrs_run sm ind (e_attrs d) m3 st3 Hat (Run_ms ind R3)) as (m4 & R4).
  set (st4 := render_attrs sm (e_attrs d) st3) in *.
  destruct (e_attrs_cmd d) as [|c0 cmd] eqn:Ecm.
  - exists m4. rewrite app_nil_r. eapply Run_trans; [exact R3|exact R4].
  - pose proof (attrlist_run ind (c0 :: cmd) m4 st4 (Run_ms ind R4)) as R5. cbv zeta in R5.
    exists false. match goal with |- Run _ _ _ _ _ (?a ++ ?b ++ ?c) => rewrite (app_assoc a b c) end.
    eapply Run_trans; [eapply Run_trans; [exact R3|exact R4]|exact R5].
Qed.


Lemma fold_lines_txt (lines : list bytes) : forall st, quiet st ->
  quiet (fold_left (fun s line => tw_wri line s) lines st) /\ snd (fold_left (fun s line => tw_wri line s) lines st) = snd st /\
  txt (fold_left (fun s line => tw_wri line s) lines st) = txt st ++ List.concat (map (fun line => tabs (wl_indent (snd st)) ++ line) lines).
Proof.
  induction lines as [|x l IH]; intros st Q; [cbn; rewrite app_nil_r; auto|].
  cbn [fold_left map List.concat]. destruct (tw_wri_quiet x st Q) as [Q1 L1]. destruct (IH _ Q1) as (Q2 & L2 & T2).
  split; [exact Q2|]. split; [rewrite L2; exact L1|]. rewrite T2, L1, (tw_wri_txt x st Q), <- !app_assoc. reflexivity.
Qed.

Lemma raw_list_run sm ind (l : list node) : Forall raw_child l -> forall nc m st, MSu ind m st ->
  exists m', Runu ind m st m' (emit_list sm l nc st) (List.concat (map raw_segs l)).
Proof.
  induction 1 as [|c rest Hc _ IH]; intros nc m st H; [exists m; apply Runu_refl; exact H|].
  cbn [emit_list map List.concat]. destruct c as [k ch]. rewrite emit_node_unfold. unfold emit_node_body.
  destruct k; try contradiction; cbn [raw_child raw_segs] in *.
  - (* text *)
    cbn [fst snd]. unfold emit_text. destruct Hc as [Hd|(Hok & Hd)].
    + rewrite Hd. destruct (raw_run ind m sm origin st H) as [M R].
      destruct (IH false false _ M) as (m2 & R2). exists m2. eapply Runu_trans; [split; [exact M|exact R]|exact R2].
    + rewrite Hd. pose proof H as [He Hl]. rewrite Hl. cbv zeta.
      assert (Hu : wl_unesc (if m then Lou ind else Lcu ind) = true) by (destruct m; reflexivity). rewrite Hu.
      rewrite Bool.orb_true_r. cbn [negb].
      assert (R : reads_as (chunk_text_plain (t_lit origin)) (t_lit origin)) by (apply reads_as_quote; exact Hok).
      destruct (toktype_eqb (t_typ origin) TPreserveText) eqn:Hp; cbn [andb].
      * (* preserved text *)
        unfold preserve_html. cbv zeta.
        destruct (negb (Nat.eqb (List.length (trim_suffix [10] (t_lit origin))) (List.length (t_lit origin)))).
        -- assert (Hok' : bytes_ok (trim_suffix [10] (t_lit origin))).
           { unfold trim_suffix. destruct (has_suffix _ _); [|exact Hok]. unfold bytes_ok in *.
             match goal with |- Forall _ (firstn ?k ?l) => rewrite <- (firstn_skipn k l) in Hok; apply Forall_app in Hok; exact (proj1 Hok) end. }
           assert (R' : reads_as (chunk_text_plain (trim_suffix [10] (t_lit origin)) ++ lit "&#x000A;") (trim_suffix [10] (t_lit origin) ++ lit "&#x000A;")).
           { apply reads_as_app; [apply reads_as_quote; exact Hok'|apply reads_as_plain; repeat constructor; cbn; try lia; discriminate]. }
           pose proof (chunk_run_u ind m _ _ st H R') as R1.
           destruct (IH false true _ (proj1 R1)) as (m2 & R2). exists m2. eapply Runu_trans; eassumption.
        -- pose proof (chunk_run_u ind m _ _ st H R) as R1.
           destruct (IH false true _ (proj1 R1)) as (m2 & R2). exists m2. eapply Runu_trans; eassumption.
      * pose proof (chunk_run_u ind m _ _ st H R) as R1.
        destruct (IH false true _ (proj1 R1)) as (m2 & R2). exists m2. eapply Runu_trans; eassumption.
  - (* script *)
    cbn [fst snd]. destruct (raw_run ind m sm origin st H) as [M R].
    destruct (IH false false _ M) as (m2 & R2). exists m2. eapply Runu_trans; [split; [exact M|exact R]|exact R2].
Qed.

Definition node_run_at (n : node) : Prop :=
  dyn_node n -> forall ind sm r (m : bool) st, Forall dyn_node r ->
  (ho r = true -> is_block n = true) -> (is_block n = true -> closes r = false) -> (manual_open n = true -> closes r = true) ->
  MS ind (if is_else n then false else m) st ->
  exists m' : bool,
    Run ind (if is_else n then MP else mode_of_bool m) st (if is_block n && ho r then MP else mode_of_bool m')
        (fst (emit_node sm n (hd_error r) (is_else n) st)) (segs_of (is_else n) (is_block n && ho r) n) /\
    snd (emit_node sm n (hd_error r) (is_else n) st) = (is_block n && ho r).

Lemma list_run sm (l : list node) : Forall node_run_at l -> Forall dyn_node l -> adj_ok l -> forall ind (m : bool) st,
  MS ind (if ho l then false else m) st ->
  exists m' : bool, Run ind (if ho l then MP else mode_of_bool m) st m' (emit_list sm l (ho l) st) (segs_list (ho l) l).
Proof.
  induction 1 as [|c rest Hc _ IH]; intros Hs Hadj ind m st H; [exists m; apply Run_refl; exact H|].
  inversion Hs as [|? ? Hsc Hsr]; subst. destruct Hadj as (Hfl & Hcl & Hmo & Hadj). cbn [emit_list segs_list ho] in *.
  destruct (Hc Hsc ind sm rest m st Hsr Hfl Hcl Hmo H) as (m1 & R1 & F1).
  assert (Efl : is_block c && ho rest = ho rest) by (destruct (ho rest); [rewrite (Hfl eq_refl); reflexivity|apply Bool.andb_false_r]).
  rewrite Efl in *.
  destruct (emit_node sm c (hd_error rest) (is_else c) st) as [s1 f1]. cbn [fst snd] in *. subst f1.
  assert (M1 : MS ind (if ho rest then false else m1) s1) by (destruct R1 as [M _]; destruct (ho rest); [exact M|destruct m1; exact M]).
  destruct (IH Hsr Hadj ind m1 s1 M1) as (m2 & R2). exists m2. eapply Run_trans; eassumption.
Qed.

(** lists of children: they never start with an else line *)
Lemma kids_run sm (l : list node) : Forall node_run_at l -> Forall dyn_node l -> kids_ok l -> forall ind (m : bool) st,
  MS ind m st -> exists m' : bool, Run ind m st m' (emit_list sm l false st) (segs_list false l).
Proof.
  intros Hn Hd [Hho Hadj] ind m st H. pose proof (list_run sm l Hn Hd Hadj ind m st) as HL. rewrite Hho in HL. apply HL. exact H.
Qed.

Theorem dyn_node_runs n : node_run_at n.
Proof.
  induction n as [k ch IH] using node_ind2. intros Hs ind sm r m st Hr Hadj1 Hadj2 Hadj3 H.
  rewrite emit_node_unfold. cbn [dyn_node] in Hs. cbn [segs_of]. rewrite !segs_kids_eq.
  destruct k; try contradiction; cbn [is_else is_block andb] in *; unfold emit_node_body; cbv zeta.
  - (* doctype *)
    assert (R : reads_as (lit "<!DOCTYPE html>") (lit "<!DOCTYPE html>")) by (apply reads_as_plain; repeat constructor; cbn; try lia; discriminate).
    exists true. cbn [fst snd]. split; [apply chunk_run; assumption|reflexivity].
  - (* element *)
    destruct Hs as [Hd [Hko Hch]]. apply dyn_all_eq in Hch.
    pose proof Hd as (Htag & _).
    destruct (chunk_tag_ok (e_tag d) Htag) as [Rto Rtc].
    (* optional marker in front *)
    assert (R0 : exists m0 : bool, Run ind m st m0 (if e_nuke_outer d then tw_write_string_literal c_NukeBefore st else st)
                                         (if e_nuke_outer d then [SLit c_NukeBefore] else [])).
    { destruct (e_nuke_outer d); [exists true; apply chunk_run; [exact H|exact reads_marker_before]|exists m; apply Run_refl; exact H]. }
    destruct R0 as (m0 & R0). set (st0 := if e_nuke_outer d then tw_write_string_literal c_NukeBefore st else st) in *.
    pose proof (chunk_run ind m0 _ _ st0 (Run_ms ind R0) Rto) as R1.
    set (st1 := tw_write_string_literal (chunk_tag_open (e_tag d)) st0) in *.
    destruct (render_attributes_run sm ind d st1 Hd (Run_ms ind R1)) as (m2 & R2).
    set (st2 := render_attributes sm d st1) in *.
    assert (Rgt : reads_as (lit ">") (lit ">")) by (apply reads_as_plain; repeat constructor; cbn; try lia; discriminate).
    pose proof (chunk_run ind m2 _ _ st2 (Run_ms ind R2) Rgt) as R3.
    set (st4 := tw_write_string_literal (lit ">") st2) in *.
    assert (R4 : Run ind m st true st4 ((if e_nuke_outer d then [SLit c_NukeBefore] else []) ++ [SLit (lit "<" ++ e_tag d)] ++ elem_segs d ++ [SLit (lit ">")])).
    { eapply Run_trans; [exact R0|]. eapply Run_trans; [exact R1|]. eapply Run_trans; [exact R2|exact R3]. }
    match goal with |- exists m' : bool, Run ind _ st _ _ (?V ++ ?X ++ ?Y ++ ?Z ++ ?W) /\ _ =>
      replace (V ++ X ++ Y ++ Z ++ W) with ((V ++ X ++ Y ++ Z) ++ W) by (rewrite <- !app_assoc; reflexivity) end.
    destruct (e_selfclosing d); cbn [fst snd].
    + exists true. rewrite app_nil_r. split; [exact R4|reflexivity].
    + fold (only_newline ch).
      assert (R5 : Run ind true st4 true (if e_nuke_inner d then tw_write_string_literal c_NukeAfter st4 else st4)
                                       (if e_nuke_inner d then [SLit c_NukeAfter] else [])).
      { destruct (e_nuke_inner d); [apply chunk_run; [exact (Run_ms ind R4)|exact reads_marker_after]|apply (Run_refl ind true); exact (Run_ms ind R4)]. }
      set (st5 := if e_nuke_inner d then tw_write_string_literal c_NukeAfter st4 else st4) in *.
      assert (H6 : exists m6 : bool, Run ind true st5 m6 (if only_newline ch then st5 else emit_list sm ch false st5) (if only_newline ch then [] else segs_list false ch)).
      { destruct (only_newline ch); [exists true; apply Run_refl; exact (Run_ms ind R5)|]. apply kids_run; [assumption|assumption|exact Hko|exact (Run_ms ind R5)]. }
      destruct H6 as (m6 & R6). set (st6 := if only_newline ch then st5 else emit_list sm ch false st5) in *.
      assert (R7 : exists m7 : bool, Run ind m6 st6 m7 (if e_nuke_inner d then tw_write_string_literal c_NukeBefore st6 else st6)
                                           (if e_nuke_inner d then [SLit c_NukeBefore] else [])).
      { destruct (e_nuke_inner d); [exists true; apply chunk_run; [exact (Run_ms ind R6)|exact reads_marker_before]|exists m6; apply Run_refl; exact (Run_ms ind R6)]. }
      destruct R7 as (m7 & R7). set (st7 := if e_nuke_inner d then tw_write_string_literal c_NukeBefore st6 else st6) in *.
      pose proof (chunk_run ind m7 _ _ st7 (Run_ms ind R7) Rtc) as R8.
      set (st8 := tw_write_string_literal (chunk_tag_close (e_tag d)) st7) in *.
      assert (R9 : Run ind true st8 true (if e_nuke_outer d then tw_write_string_literal c_NukeAfter st8 else tw_write_string_literal (lit "\n") st8)
                                       [SLit (if e_nuke_outer d then c_NukeAfter else [10])]).
      { destruct (e_nuke_outer d); apply chunk_run; try exact (Run_ms ind R8); [exact reads_marker_after|exact reads_as_escaped_newline]. }
      exists true. split; [|reflexivity].
      eapply Run_trans; [exact R4|]. eapply Run_trans; [exact R5|]. eapply Run_trans; [exact R6|]. eapply Run_trans; [exact R7|].
      match goal with |- Run _ _ _ _ _ [?a; ?b] => change [a; b] with ([a] ++ [b]) end.
      eapply Run_trans; [exact R8|exact R9].
  - (* newline *)
    exists true. cbn [fst snd]. split; [apply chunk_run; [exact H|exact reads_as_escaped_newline]|reflexivity].
  - (* comment *)
    destruct Hs as [[Hne Hok]|(Hnil & Hko & Hch)].
    + destruct (t_lit origin) as [|c0 c] eqn:El; [congruence|]. cbn [fst snd].
      destruct (chunk_comment_ok (c0 :: c) Hok) as [Rc _]. exists true. split; [apply chunk_run; assumption|reflexivity].
    + (* a comment with nested content *)
      rewrite Hnil. cbn [fst snd]. apply dyn_all_eq in Hch.
      assert (Ro : reads_as (lit "<!--") (lit "<!--")) by (apply reads_as_plain; repeat constructor; cbn; try lia; discriminate).
      assert (Rc : reads_as (lit "-->\n") (lit "-->" ++ [10])).
      { change (lit "-->\n") with (lit "-->" ++ [92; 110]). apply reads_as_app; [apply reads_as_plain; repeat constructor; cbn; try lia; discriminate|exact reads_as_escaped_newline]. }
      pose proof (chunk_run ind m _ _ st H Ro) as R1.
      destruct (kids_run sm ch IH Hch Hko ind true _ (Run_ms ind R1)) as (m2 & R2).
      pose proof (chunk_run ind m2 _ _ _ (Run_ms ind R2) Rc) as R3.
      exists true. split; [|reflexivity]. eapply Run_trans; [exact R1|]. eapply Run_trans; [exact R2|exact R3].
  - (* text *)
    cbn [fst snd]. unfold emit_text. destruct Hs as [(Hok & Hdyn & Hpre)|Hdyn].
    + rewrite Hdyn, Hpre. pose proof H as [He Hl]. rewrite Hl. cbv zeta.
      assert (Hu : wl_unesc (loc_of ind m) = false) by (destruct m; reflexivity). rewrite Hu.
      unfold text_html. destruct (toktype_eqb (t_typ origin) TPlainText); cbn [orb negb]; exists true; (split; [|reflexivity]).
      * apply chunk_run; [exact H|]. apply reads_as_quote. exact Hok.
      * destruct (chunk_text_escaped_ok (t_lit origin) Hok) as [R _]. apply chunk_run; assumption.
    + rewrite Hdyn. exists false. split; [apply dyn_run; exact H|reflexivity].
  - (* unescaped line *)
    cbn [fst snd].
    assert (Hu : MSu ind m (set_unesc true st)).
    { destruct H as [He Hl]. split; [exact He|]. unfold set_unesc. cbn [set_local snd]. rewrite Hl. destruct m; reflexivity. }
    destruct (raw_list_run sm ind ch Hs false m _ Hu) as (m' & [E5 L5] & code & T5 & D5).
    exists m'. split; [|reflexivity]. split.
    + split; [exact E5|]. unfold set_unesc at 1. cbn [set_local snd]. rewrite L5. destruct m'; reflexivity.
    + exists code. split; [|exact D5]. unfold set_unesc at 1. rewrite txt_set_local, T5. unfold set_unesc. rewrite txt_set_local. reflexivity.
  - (* a `-` line *)
    destruct ch as [|c0 ch0].
    + (* a line of Go *)
      rename Hs into Helse. cbn [is_block manual_open andb] in *. rewrite Helse in *. cbn [andb negb fst snd].
      set (code := go_trim_space (t_lit origin)) in *.
      destruct (tw_wri_run ind m [] st H) as [M1 T1]. set (st1 := tw_wri [] st) in *.
      assert (Q1 : quiet st1) by (destruct M1 as [A B]; split; [exact A|rewrite B; reflexivity]).
      destruct (tw_write_add_quiet sm code origin st1 Q1) as [Q3 L3]. pose proof (tw_write_add_txt sm code origin st1 Q1) as T3.
      set (st3 := tw_write_add sm code origin st1) in *.
      assert (Hend : (if false && any_prefix c_openingStatements code && negb (has_suffix (lit "{") code) then lit " {" ++ [10] else [10]) = [10]) by reflexivity.
      destruct (tw_wr_quiet [10] st3 Q3) as [Q4 L4]. pose proof (tw_wr_txt [10] st3 Q3) as T4.
      exists false. split; [|reflexivity]. split; [split; [exact (proj1 Q4)|rewrite L4, L3; exact (proj2 M1)]|].
      exists ((if m then close_text (Lo ind) else []) ++ tabs ind ++ code ++ [10]). split.
      * rewrite T4, T3, T1. cbn [app]. rewrite <- !app_assoc. reflexivity.
      * assert (Ds : denotes ind false false (tabs ind ++ code ++ [10]) [SStmt code]).
        { rewrite <- (app_nil_r (tabs ind ++ code ++ [10])). apply d_stmt. constructor. }
        destruct m; [apply d_close; exact Ds|exact Ds].
    + destruct Hs as [[Hblock|[(Hnop & Helse)|(Hop1 & Hsuf1 & Helse1)]] [Hko Hch]].
      * (* a block, alone or as a link of an if / else chain *)
        pose proof Hblock as (Hop & Hsuf & Hpre). apply (proj1 (dyn_all_eq (c0 :: ch0))) in Hch.
        cbn [is_block manual_open] in *. rewrite Hop, Hsuf in *. cbn [andb negb] in *.
        assert (Hne : c0 :: ch0 <> []) by discriminate.
        generalize dependent (c0 :: ch0). intros ch IH Hko Hch Hne. clear c0 ch0.
        {
    set (nc := any_prefix c_elseStatements (t_lit origin)) in *.
            rewrite ?Hop, ?Hsuf, ?Hpre. cbn [andb negb]. rewrite ?Bool.andb_true_r.
        destruct ch as [|c0 ch0]; [congruence|]. cbn [andb negb].
        set (code := go_trim_space (t_lit origin)) in *.
        set (m0 := if nc then false else m) in *.
        destruct (tw_wri_run ind m0 (if nc then lit "} " else []) st H) as [M1 T1].
        set (st1 := tw_wri (if nc then lit "} " else []) st) in *.
        assert (Q1 : quiet st1) by (destruct M1 as [A B]; split; [exact A|rewrite B; reflexivity]).
        destruct (tw_write_add_quiet sm code origin st1 Q1) as [Q3 L3]. pose proof (tw_write_add_txt sm code origin st1 Q1) as T3.
        set (st3 := tw_write_add sm code origin st1) in *.
        destruct (tw_wr_quiet (lit " {" ++ [10]) st3 Q3) as [Q4 L4]. pose proof (tw_wr_txt (lit " {" ++ [10]) st3 Q3) as T4.
        set (st4 := tw_wr (lit " {" ++ [10]) st3) in *.
        assert (E4 : snd st4 = Lc ind) by (rewrite L4, L3; exact (proj2 M1)).
        assert (Mb : MS (S ind) false (set_local st4 (indent_local (snd st4) 1))).
        { split; [exact (proj1 Q4)|]. cbn [set_local snd]. rewrite E4. unfold indent_local, Lc, loc_of. cbn [wl_indent wl_static wl_errh wl_unesc]. rewrite Nat.add_1_r. reflexivity. }
        destruct (kids_run sm (c0 :: ch0) IH Hch Hko (S ind) false _ Mb) as (mb & R5).
        pose proof (Run_ms (S ind) R5) as [E5 L5]. destruct R5 as [_ (body_code & T5 & D5)].
        rewrite txt_set_local in T5.
        set (st5 := emit_list sm (c0 :: ch0) false (set_local st4 (indent_local (snd st4) 1))) in *.
        assert (Hclose : w_err (fst (tw_close st5)) = None /\ txt (tw_close st5) = txt st5 ++ (if mb then close_text (Lo (S ind)) else [])).
        { unfold tw_close, close_if_static. rewrite L5. destruct mb; cbn [loc_of Lo Lc wl_static].
          - destruct (close_string_literal_txt st5 E5) as ([Ec _] & _ & _ & Tc). rewrite L5 in Tc. split; [exact Ec|exact Tc].
          - split; [exact E5|rewrite app_nil_r; reflexivity]. }
        destruct Hclose as [E6 T6].
        set (st6 := set_local (tw_close st5) (snd st4)) in *.
        assert (M6 : MS ind false st6) by (split; [exact E6|exact E4]).
        assert (T6' : txt st6 = txt st ++ (if m0 then close_text (Lo ind) else []) ++ chain_head_code ind (negb nc) code body_code mb).
        { unfold st6. rewrite txt_set_local, T6, T5, T4, T3, T1. unfold chain_head_code. destruct nc; cbn [negb app]; rewrite <- !app_assoc; reflexivity. }
        (* does the chain go on? *)
        assert (Hflag : match is_silent (hd_error r) with
                        | Some next_code => has_prefix (lit "}") next_code = false /\ any_prefix c_elseStatements next_code = ho r
                        | None => ho r = false
                        end).
        { destruct r as [|n' r']; [reflexivity|]. inversion Hr as [|? ? Hn' _]; subst. destruct n' as [k' ch']. cbn [hd_error is_silent ho is_else].
          destruct k'; try reflexivity. split; [exact (Hadj2 eq_refl)|reflexivity]. }
        destruct (ho r) eqn:Eho.
        + (* left open for the else that follows *)
          destruct (is_silent (hd_error r)) as [next_code|]; [|discriminate]. destruct Hflag as [Hc1 Hc2]. rewrite Hc1, Hc2. cbn [andb negb fst snd].
          exists false. split; [|reflexivity]. split; [exact M6|].
          exists ((if m0 then close_text (Lo ind) else []) ++ chain_head_code ind (negb nc) code body_code mb). split; [exact T6'|].
          unfold m0. destruct nc; cbn [negb].
          * rewrite <- (app_nil_r (chain_head_code _ _ _ _ _)). cbn [app]. apply d_block_cont; [exact D5|constructor].
          * assert (Db : denotes ind false MP (chain_head_code ind true code body_code mb) [SBlockOpen code (segs_list false (c0 :: ch0))]).
            { rewrite <- (app_nil_r (chain_head_code _ _ _ _ _)). apply d_block_open; [exact D5|constructor]. }
            destruct m; [apply d_close; exact Db|exact Db].
        + (* closed here *)
          destruct (tw_wri_run ind false (lit "}" ++ [10]) st6 M6) as [M7 T7].
          assert (Hres : (if negb (has_prefix (lit "}") (match is_silent (hd_error r) with Some c => c | None => [] end)) && negb (match is_silent (hd_error r) with Some c => any_prefix c_elseStatements c | None => false end) then true else true) = true) by (destruct (_ && _); reflexivity).
          assert (Hout : (match is_silent (hd_error r) with
                          | Some next_code =>
                            if negb (has_prefix (lit "}") next_code) && negb (any_prefix c_elseStatements next_code)
                            then (tw_wri (lit "}" ++ [10]) st6, false) else (st6, any_prefix c_elseStatements next_code)
                          | None => (tw_wri (lit "}" ++ [10]) st6, false)
                          end) = (tw_wri (lit "}" ++ [10]) st6, false)).
          { destruct (is_silent (hd_error r)) as [next_code|]; [|reflexivity]. destruct Hflag as [Hc1 Hc2]. rewrite Hc1, Hc2. reflexivity. }
          rewrite Hout. cbn [fst snd]. exists false. split; [|reflexivity]. split; [exact M7|].
          exists ((if m0 then close_text (Lo ind) else []) ++ chain_head_code ind (negb nc) code body_code mb ++ tabs ind ++ lit "}" ++ [10]). split.
          * rewrite T7, T6'. cbn [app]. rewrite <- !app_assoc. reflexivity.
          * unfold m0. destruct nc; cbn [negb].
            -- cbn [app]. rewrite <- (app_nil_r (chain_head_code ind false code body_code mb ++ tabs ind ++ lit "}" ++ [10])).
               apply d_block_last; [exact D5|constructor].
            -- assert (Db : denotes ind false false (chain_head_code ind true code body_code mb ++ tabs ind ++ lit "}" ++ [10]) [SBlock code (segs_list false (c0 :: ch0))]).
               { rewrite block_code_chain. rewrite <- (app_nil_r (block_code _ _ _ _)). apply d_block; [exact D5|constructor]. }
               destruct m; [apply d_close; exact Db|exact Db].
        }
      * (* a line of Go with nested content: `- case x:` *)
        apply (proj1 (dyn_all_eq (c0 :: ch0))) in Hch. cbn [is_block] in *. rewrite Hnop in *. rewrite Helse in *. cbn [andb negb] in *.
        assert (Hho : ho r = false) by (destruct (ho r); [specialize (Hadj1 eq_refl); discriminate|reflexivity]).
        set (code := go_trim_space (t_lit origin)) in *.
        destruct (tw_wri_run ind m [] st H) as [M1 T1]. set (st1 := tw_wri [] st) in *.
        assert (Q1 : quiet st1) by (destruct M1 as [A B]; split; [exact A|rewrite B; reflexivity]).
        destruct (tw_write_add_quiet sm code origin st1 Q1) as [Q3 L3]. pose proof (tw_write_add_txt sm code origin st1 Q1) as T3.
        set (st3 := tw_write_add sm code origin st1) in *.
        destruct (tw_wr_quiet [10] st3 Q3) as [Q4 L4]. pose proof (tw_wr_txt [10] st3 Q3) as T4.
        set (st4 := tw_wr [10] st3) in *.
        assert (E4 : snd st4 = Lc ind) by (rewrite L4, L3; exact (proj2 M1)).
        assert (Mb : MS (S ind) false (set_local st4 (indent_local (snd st4) 1))).
        { split; [exact (proj1 Q4)|]. cbn [set_local snd]. rewrite E4. unfold indent_local, Lc, loc_of. cbn [wl_indent wl_static wl_errh wl_unesc]. rewrite Nat.add_1_r. reflexivity. }
        destruct (kids_run sm (c0 :: ch0) IH Hch Hko (S ind) false _ Mb) as (mb & R5).
        pose proof (Run_ms (S ind) R5) as [E5 L5]. destruct R5 as [_ (body_code & T5 & D5)].
        rewrite txt_set_local in T5.
        set (st5 := emit_list sm (c0 :: ch0) false (set_local st4 (indent_local (snd st4) 1))) in *.
        assert (Hclose : w_err (fst (tw_close st5)) = None /\ txt (tw_close st5) = txt st5 ++ (if mb then close_text (Lo (S ind)) else [])).
        { unfold tw_close, close_if_static. rewrite L5. destruct mb; cbn [loc_of Lo Lc wl_static].
          - destruct (close_string_literal_txt st5 E5) as ([Ec _] & _ & _ & Tc). rewrite L5 in Tc. split; [exact Ec|exact Tc].
          - split; [exact E5|rewrite app_nil_r; reflexivity]. }
        destruct Hclose as [E6 T6].
        set (st6 := set_local (tw_close st5) (snd st4)) in *.
        assert (Hout : (match is_silent (hd_error r) with
                        | Some next_code => (st6, any_prefix c_elseStatements next_code)
                        | None => (st6, false)
                        end) = (st6, false)).
        { destruct r as [|n' r']; [reflexivity|]. cbn [hd_error]. destruct n' as [k' ch']. destruct k'; try reflexivity.
          cbn [is_silent]. cbn [ho is_else] in Hho. rewrite Hho. reflexivity. }
        rewrite Hout. cbn [fst snd]. exists false. split; [|reflexivity]. split; [split; [exact E6|exact E4]|].
        exists ((if m then close_text (Lo ind) else []) ++ tabs ind ++ code ++ [10] ++ body_code ++ (if mb then close_text (Lo (S ind)) else [])). split.
        -- unfold st6. rewrite txt_set_local, T6, T5, T4, T3, T1. cbn [app]. rewrite <- !app_assoc. reflexivity.
        -- assert (Dl : denotes ind false false (tabs ind ++ code ++ [10] ++ body_code ++ (if mb then close_text (Lo (S ind)) else [])) [SLine code (segs_list false (c0 :: ch0))]).
           { rewrite <- (app_nil_r (tabs ind ++ code ++ [10] ++ body_code ++ _)). apply d_line; [exact D5|constructor]. }
           destruct m; [apply d_close; exact Dl|exact Dl].
      * (* a line that opens a block with its own brace, closed by a later `- }` line *)
        apply (proj1 (dyn_all_eq (c0 :: ch0))) in Hch. cbn [is_block manual_open] in *. rewrite Hop1, Hsuf1 in *. rewrite Helse1 in *. cbn [andb negb] in *.
        assert (Hho : ho r = false) by (destruct (ho r); [specialize (Hadj1 eq_refl); discriminate|reflexivity]).
        pose proof (Hadj3 eq_refl) as Hcl.
        set (code := go_trim_space (t_lit origin)) in *.
        destruct (tw_wri_run ind m [] st H) as [M1 T1]. set (st1 := tw_wri [] st) in *.
        assert (Q1 : quiet st1) by (destruct M1 as [A B]; split; [exact A|rewrite B; reflexivity]).
        destruct (tw_write_add_quiet sm code origin st1 Q1) as [Q3 L3]. pose proof (tw_write_add_txt sm code origin st1 Q1) as T3.
        set (st3 := tw_write_add sm code origin st1) in *.
        destruct (tw_wr_quiet [10] st3 Q3) as [Q4 L4]. pose proof (tw_wr_txt [10] st3 Q3) as T4.
        set (st4 := tw_wr [10] st3) in *.
        assert (E4 : snd st4 = Lc ind) by (rewrite L4, L3; exact (proj2 M1)).
        assert (Mb : MS (S ind) false (set_local st4 (indent_local (snd st4) 1))).
        { split; [exact (proj1 Q4)|]. cbn [set_local snd]. rewrite E4. unfold indent_local, Lc, loc_of. cbn [wl_indent wl_static wl_errh wl_unesc]. rewrite Nat.add_1_r. reflexivity. }
        destruct (kids_run sm (c0 :: ch0) IH Hch Hko (S ind) false _ Mb) as (mb & R5).
        pose proof (Run_ms (S ind) R5) as [E5 L5]. destruct R5 as [_ (body_code & T5 & D5)].
        rewrite txt_set_local in T5.
        set (st5 := emit_list sm (c0 :: ch0) false (set_local st4 (indent_local (snd st4) 1))) in *.
        assert (Hclose : w_err (fst (tw_close st5)) = None /\ txt (tw_close st5) = txt st5 ++ (if mb then close_text (Lo (S ind)) else [])).
        { unfold tw_close, close_if_static. rewrite L5. destruct mb; cbn [loc_of Lo Lc wl_static].
          - destruct (close_string_literal_txt st5 E5) as ([Ec _] & _ & _ & Tc). rewrite L5 in Tc. split; [exact Ec|exact Tc].
          - split; [exact E5|rewrite app_nil_r; reflexivity]. }
        destruct Hclose as [E6 T6].
        set (st6 := set_local (tw_close st5) (snd st4)) in *.
        assert (Hout : (match is_silent (hd_error r) with
                        | Some next_code =>
                          if negb (has_prefix (lit "}") next_code) && negb (any_prefix c_elseStatements next_code)
                          then (tw_wri (lit "}" ++ [10]) st6, false) else (st6, any_prefix c_elseStatements next_code)
                        | None => (tw_wri (lit "}" ++ [10]) st6, false)
                        end) = (st6, false)).
        { destruct r as [|n' r']; [discriminate|]. cbn [hd_error]. destruct n' as [k' ch']. destruct k'; try discriminate.
          cbn [is_silent closes] in *. cbn [ho is_else] in Hho. rewrite Hcl, Hho. reflexivity. }
        rewrite Hout. cbn [fst snd]. exists false. split; [|reflexivity]. split; [split; [exact E6|exact E4]|].
        exists ((if m then close_text (Lo ind) else []) ++ tabs ind ++ code ++ [10] ++ body_code ++ (if mb then close_text (Lo (S ind)) else [])). split.
        -- unfold st6. rewrite txt_set_local, T6, T5, T4, T3, T1. cbn [app]. rewrite <- !app_assoc. reflexivity.
        -- assert (Dl : denotes ind false false (tabs ind ++ code ++ [10] ++ body_code ++ (if mb then close_text (Lo (S ind)) else [])) [SLine code (segs_list false (c0 :: ch0))]).
           { rewrite <- (app_nil_r (tabs ind ++ code ++ [10] ++ body_code ++ _)). apply d_line; [exact D5|constructor]. }
           destruct m; [apply d_close; exact Dl|exact Dl].
  - (* script *)
    cbn [fst snd]. exists false. split; [apply dyn_run; exact H|reflexivity].
  - (* = @render *)
    destruct Hs as [Hko Hs]. apply dyn_all_eq in Hs.
    destruct ch as [|c0 ch0]; cbn [fst snd].
    + (* without nested content *)
      destruct (tw_wri_run ind m (lit "if __err = ") st H) as [M1 T1]. set (st1 := tw_wri (lit "if __err = ") st) in *.
      assert (Q1 : quiet st1) by (destruct M1 as [A B]; split; [exact A|rewrite B; reflexivity]).
      destruct (tw_write_add_quiet sm (t_lit origin) origin st1 Q1) as [Q3 L3]. pose proof (tw_write_add_txt sm (t_lit origin) origin st1 Q1) as T3.
      set (st3 := tw_write_add sm (t_lit origin) origin st1) in *.
      destruct (tw_wr_quiet (lit ".Render(ctx, __buf); __err != nil { return }" ++ [10]) st3 Q3) as [Q4 L4].
      pose proof (tw_wr_txt (lit ".Render(ctx, __buf); __err != nil { return }" ++ [10]) st3 Q3) as T4.
      exists false. split; [|reflexivity]. split; [split; [exact (proj1 Q4)|rewrite L4, L3; exact (proj2 M1)]|].
      exists ((if m then close_text (Lo ind) else []) ++ render_code ind (t_lit origin)). split.
      * rewrite T4, T3, T1. unfold render_code. rewrite <- !app_assoc. reflexivity.
      * assert (Dr : denotes ind false false (render_code ind (t_lit origin)) [SRender (t_lit origin) None]).
        { rewrite <- (app_nil_r (render_code _ _)). apply d_render. constructor. }
        destruct m; [apply d_close; exact Dr|exact Dr].
    + (* with nested content *)
      destruct H as [He Hl]. destruct (after_var_facts st He) as (E1 & L1 & T1).
      set (v := var_name_of st).
      assert (M1 : MS ind m (after_var st)) by (split; [exact E1|rewrite L1; exact Hl]).
      match goal with |- context [tw_wri ?x (after_var st)] => destruct (tw_wri_run ind m x _ M1) as [M2 T2]; set (st2 := tw_wri x (after_var st)) in * end.
      assert (E2 : snd st2 = Lc ind) by exact (proj2 M2).
      assert (Q3 : quiet (set_local st2 (indent_local (snd st2) 1))).
      { split; [exact (proj1 M2)|]. cbn [set_local snd]. rewrite E2. reflexivity. }
      destruct (fold_lines_txt render_body_pre _ Q3) as (Q4 & L4 & T4). rewrite txt_set_local in T4.
      set (st3 := fold_left (fun s line => tw_wri line s) render_body_pre (set_local st2 (indent_local (snd st2) 1))) in *.
      assert (I3 : snd st3 = Lc (S ind)).
      { rewrite L4. cbn [set_local snd]. rewrite E2. unfold indent_local, Lc. cbn [wl_indent wl_static wl_errh wl_unesc]. rewrite Nat.add_1_r. reflexivity. }
      assert (M3 : MS (S ind) false st3) by (split; [exact (proj1 Q4)|exact I3]).
      destruct (kids_run sm (c0 :: ch0) IH Hs Hko (S ind) false st3 M3) as (mb & R5).
      pose proof (Run_ms (S ind) R5) as [E5 L5]. destruct R5 as [_ (body_code & T5 & D5)].
      set (st4 := emit_list sm (c0 :: ch0) false st3) in *.
      assert (Hclose : w_err (fst (tw_close st4)) = None /\ txt (tw_close st4) = txt st4 ++ (if mb then close_text (Lo (S ind)) else [])).
      { unfold tw_close, close_if_static. rewrite L5. destruct mb; cbn [loc_of Lo Lc wl_static].
        - destruct (close_string_literal_txt st4 E5) as ([Ec _] & _ & _ & Tc). rewrite L5 in Tc. split; [exact Ec|exact Tc].
        - split; [exact E5|rewrite app_nil_r; reflexivity]. }
      destruct Hclose as [E6 T6].
      assert (Q6 : quiet (set_local (tw_close st4) (snd st2))) by (split; [exact E6|cbn [set_local snd]; rewrite E2; reflexivity]).
      destruct (fold_lines_txt render_body_post _ Q6) as (Q7 & L7 & T7). rewrite txt_set_local in T7.
      set (st6 := fold_left (fun s line => tw_wri line s) render_body_post (set_local (tw_close st4) (snd st2))) in *.
      assert (I6 : snd st6 = Lc ind) by (rewrite L7; cbn [set_local snd]; exact E2).
      assert (M6 : MS ind false st6) by (split; [exact (proj1 Q7)|exact I6]).
      destruct (tw_wri_run ind false (lit "if __err = ") st6 M6) as [M8 T8]. set (st7 := tw_wri (lit "if __err = ") st6) in *.
      assert (Q8 : quiet st7) by (destruct M8 as [A B]; split; [exact A|rewrite B; reflexivity]).
      destruct (tw_write_add_quiet sm (t_lit origin) origin st7 Q8) as [Q9 L9]. pose proof (tw_write_add_txt sm (t_lit origin) origin st7 Q8) as T9.
      set (st9 := tw_write_add sm (t_lit origin) origin st7) in *.
      match goal with |- context [tw_wr ?x st9] => destruct (tw_wr_quiet x st9 Q9) as [Q10 L10]; pose proof (tw_wr_txt x st9 Q9) as T10 end.
      exists false. split; [|reflexivity]. split; [split; [exact (proj1 Q10)|rewrite L10, L9; exact (proj2 M8)]|].
      exists ((if m then close_text (Lo ind) else []) ++ render_block_code ind v (t_lit origin) body_code mb). split.
      * rewrite T10, T9, T8, T7, T6, T5, T4, T2, T1. cbn [set_local snd]. rewrite E2. cbn [Lc wl_indent indent_local].
        unfold render_block_code. rewrite Nat.add_1_r. cbn [app]. rewrite <- !app_assoc. reflexivity.
      * assert (Dr : denotes ind false false (render_block_code ind v (t_lit origin) body_code mb) [SRender (t_lit origin) (Some (segs_list false (c0 :: ch0)))]).
        { rewrite <- (app_nil_r (render_block_code _ _ _ _ _)). apply d_render_block; [exact D5|constructor]. }
        destruct m; [apply d_close; exact Dr|exact Dr].
  - (* = @children *)
    cbn [fst snd].
    match goal with |- context [tw_wri ?x st] => destruct (tw_wri_run ind m x st H) as [M1 T1] end.
    exists false. split; [|reflexivity]. split; [exact M1|].
    exists ((if m then close_text (Lo ind) else []) ++ children_code ind). split; [rewrite T1; unfold children_code; rewrite <- ?app_assoc; reflexivity|].
    assert (Dc : denotes ind false false (children_code ind) [SChildren]).
    { rewrite <- (app_nil_r (children_code _)). apply d_children. constructor. }
    destruct m; [apply d_close; exact Dc|exact Dc].
  - (* filters *)
    assert (Rnl : forall p, Forall plain p -> reads_as (p ++ [92; 110]) (p ++ [10])).
    { intros p Hp. apply reads_as_app; [apply reads_as_plain; exact Hp|exact reads_as_escaped_newline]. }
    destruct fk; cbn [fst snd].
    + (* :javascript *)
      destruct Hs as [Hko Hch]. apply dyn_all_eq in Hch.
      assert (Ro : reads_as (lit "<script>\n") (lit "<script>" ++ [10])).
      { change (lit "<script>\n") with (lit "<script>" ++ [92; 110]). apply Rnl. repeat constructor; cbn; try lia; discriminate. }
      assert (Rc : reads_as (lit "</script>") (lit "</script>")) by (apply reads_as_plain; repeat constructor; cbn; try lia; discriminate).
      pose proof (chunk_run ind m _ _ st H Ro) as R1.
      destruct (kids_run sm ch IH Hch Hko ind true _ (Run_ms ind R1)) as (m2 & R2).
      pose proof (chunk_run ind m2 _ _ _ (Run_ms ind R2) Rc) as R3.
      exists true. split; [|reflexivity]. eapply Run_trans; [exact R1|]. eapply Run_trans; [exact R2|exact R3].
    + (* :css *)
      destruct Hs as [Hko Hch]. apply dyn_all_eq in Hch.
      assert (Ro : reads_as (lit "<style>\n") (lit "<style>" ++ [10])).
      { change (lit "<style>\n") with (lit "<style>" ++ [92; 110]). apply Rnl. repeat constructor; cbn; try lia; discriminate. }
      assert (Rc : reads_as (lit "</style>") (lit "</style>")) by (apply reads_as_plain; repeat constructor; cbn; try lia; discriminate).
      pose proof (chunk_run ind m _ _ st H Ro) as R1.
      destruct (kids_run sm ch IH Hch Hko ind true _ (Run_ms ind R1)) as (m2 & R2).
      pose proof (chunk_run ind m2 _ _ _ (Run_ms ind R2) Rc) as R3.
      exists true. split; [|reflexivity]. eapply Run_trans; [exact R1|]. eapply Run_trans; [exact R2|exact R3].
    + destruct Hs as [(Hl & Hko & Hch)|[(Hl & Hraw)|(Hl & Hraw)]]; rewrite Hl.
      * (* :escaped *)
        apply dyn_all_eq in Hch. cbn [beqb orb]. change (beqb (lit "escaped") (lit "plain")) with false. change (beqb (lit "escaped") (lit "preserve")) with false. cbn [orb].
        destruct (kids_run sm ch IH Hch Hko ind m st H) as (m2 & R2). exists m2. split; [exact R2|reflexivity].
      * (* :plain *)
        change (beqb (lit "plain") (lit "plain")) with true. change (beqb (lit "plain") (lit "preserve")) with false. cbn [orb].
        assert (Hu : MSu ind m (set_unesc true st)).
        { destruct H as [He Hl0]. split; [exact He|]. unfold set_unesc. cbn [set_local snd]. rewrite Hl0. destruct m; reflexivity. }
        destruct (raw_list_run sm ind ch Hraw false m _ Hu) as (m' & [E5 L5] & code & T5 & D5).
        exists m'. split; [|reflexivity]. split.
        -- split; [exact E5|]. unfold set_unesc at 1. cbn [set_local snd]. rewrite L5. destruct m'; reflexivity.
        -- exists code. split; [|exact D5]. unfold set_unesc at 1. rewrite txt_set_local, T5. unfold set_unesc. rewrite txt_set_local. reflexivity.
      * (* :preserve: the same, and a line break after the last line *)
        change (beqb (lit "preserve") (lit "plain")) with false. change (beqb (lit "preserve") (lit "preserve")) with true. cbn [orb].
        assert (Hu : MSu ind m (set_unesc true st)).
        { destruct H as [He Hl0]. split; [exact He|]. unfold set_unesc. cbn [set_local snd]. rewrite Hl0. destruct m; reflexivity. }
        destruct (raw_list_run sm ind ch Hraw false m _ Hu) as (m1 & R5).
        pose proof (chunk_run_u ind m1 (lit "\n") [10] _ (proj1 R5) reads_as_escaped_newline) as R6.
        destruct (Runu_trans _ _ _ _ _ _ _ _ _ R5 R6) as ([E7 L7] & code & T7 & D7).
        exists true. split; [|reflexivity]. split.
        -- split; [exact E7|]. unfold set_unesc at 1. cbn [set_local snd]. rewrite L7. reflexivity.
        -- exists code. split; [|exact D7]. unfold set_unesc at 1. rewrite txt_set_local, T7. unfold set_unesc. rewrite txt_set_local. reflexivity.
Qed.

(** * a whole template with a body of this fragment *)
Theorem dyn_template_code o body :
  Forall dyn_node body -> kids_ok body ->
  exists (m' : bool) code,
    denotes 2 false m' code (segs_list false body) /\
    item_err (Node (KGoht o) body) = None /\
    item_text (Node (KGoht o) body) =
      lit "func " ++ t_lit o ++ c_gohtEntry ++ code ++ (if m' then close_text (Lo 2) else []) ++ c_gohtExit.
Proof.
  intros Hall Hko. unfold item_text, item_err. rewrite emit_node_unfold. unfold emit_node_body. cbv zeta. cbn [fst].
  assert (Q0 : quiet (reset_var_name init_st)) by (split; reflexivity).
  assert (E0 : snd (reset_var_name init_st) = wl_init) by reflexivity.
  assert (T0 : txt (reset_var_name init_st) = []) by reflexivity.
  generalize dependent (reset_var_name init_st). intros s0 Q0 E0 T0.
  destruct (tw_wr_quiet (lit "func ") s0 Q0) as [Q1 L1]. pose proof (tw_wr_txt (lit "func ") s0 Q0) as T1. rewrite T0 in T1. rewrite E0 in L1.
  generalize dependent (tw_wr (lit "func ") s0). intros s1 Q1 L1 T1.
  destruct (tw_write_add_quiet false (t_lit o) o s1 Q1) as [Q2 L2]. pose proof (tw_write_add_txt false (t_lit o) o s1 Q1) as T2. rewrite T1 in T2. rewrite L1 in L2.
  generalize dependent (tw_write_add false (t_lit o) o s1). intros s2 Q2 L2 T2.
  destruct (tw_wr_quiet c_gohtEntry s2 Q2) as [Q3 L3]. pose proof (tw_wr_txt c_gohtEntry s2 Q2) as T3. rewrite T2 in T3. rewrite L2 in L3.
  generalize dependent (tw_wr c_gohtEntry s2). intros st4 Q3 L3 T3. clear s0 Q0 E0 T0 s1 Q1 L1 T1 s2 Q2 L2 T2.
  assert (Hb : MS 2 false (set_local st4 (indent_local (snd st4) 2))).
  { split; [exact (proj1 Q3)|]. cbn [set_local snd]. rewrite L3. reflexivity. }
  assert (Hn : Forall node_run_at body) by (apply Forall_forall; intros n _; apply dyn_node_runs).
  destruct (kids_run false body Hn Hall Hko 2%nat false _ Hb) as (m' & R5).
  pose proof (Run_ms 2 R5) as [E5 L5]. destruct R5 as [_ (code & T5 & D5)].
  rewrite txt_set_local in T5.
  generalize dependent (emit_list false body false (set_local st4 (indent_local (snd st4) 2))). intros st5 T5 E5 L5.
  exists m', code. split; [exact D5|].
  assert (Hclose : w_err (fst (tw_close st5)) = None /\ txt (tw_close st5) = txt st5 ++ (if m' then close_text (Lo 2) else [])).
  { unfold tw_close, close_if_static. rewrite L5. destruct m'; cbn [loc_of Lo Lc wl_static].
    - destruct (close_string_literal_txt st5 E5) as ([Ec _] & _ & _ & Tc). rewrite L5 in Tc. split; [exact Ec|exact Tc].
    - split; [exact E5|rewrite app_nil_r; reflexivity]. }
  destruct Hclose as [E6 T6].
  assert (Q7 : quiet (set_local (tw_close st5) (snd st4))).
  { split; [exact E6|]. cbn [set_local snd]. rewrite L3. reflexivity. }
  destruct (tw_wr_quiet c_gohtExit _ Q7) as [[E8 _] _]. split; [exact E8|].
  rewrite tw_wr_txt by exact Q7. rewrite txt_set_local, T6, T5, T3. rewrite <- !app_assoc. reflexivity.
Qed.

(** on a static tree the segments spell its HTML *)
Lemma eval_app rho a b : eval_segs rho (a ++ b) = eval_segs rho a ++ eval_segs rho b.
Proof. unfold eval_segs. rewrite map_app, concat_app. reflexivity. Qed.

Lemma eval_attr_static rho a : static_attr a -> eval_segs rho (attr_segs a) = attr_html a.
Proof.
  intros [_ Hv]. unfold attr_segs, attr_html. destruct (a_value a) as [|v0 v] eqn:E.
  - cbn. rewrite app_nil_r. reflexivity.
  - destruct Hv as [Hv|(Hb & Hd & _)]; [discriminate|]. rewrite Hb, Hd. cbn. rewrite app_nil_r, <- !app_assoc. reflexivity.
Qed.

Lemma eval_attrs_static rho l : Forall (fun kv : bytes * attribute => static_attr (snd kv)) l ->
  eval_segs rho (List.concat (map (fun kv => attr_segs (snd kv)) l)) = List.concat (map (fun kv => attr_html (snd kv)) l).
Proof.
  induction 1 as [|kv l Hkv _ IH]; [reflexivity|]. cbn [map List.concat]. rewrite eval_app, IH, (eval_attr_static rho _ Hkv). reflexivity.
Qed.

Lemma static_not_block n : static_node n -> is_block n = false.
Proof. destruct n as [k ch]. destruct k; cbn; intros; try reflexivity; contradiction. Qed.

Lemma eval_static rho n : static_node n -> eval_segs rho (segs_of false false n) = html_node n.
Proof.
  induction n as [k ch IH] using node_ind2. intro Hs. cbn [static_node] in Hs. cbn [segs_of html_node]. rewrite !segs_kids_eq, html_kids_eq.
  destruct k; try contradiction; try reflexivity.
  - destruct Hs as [Hd Hch]. apply static_all_eq in Hch.
    assert (Hk : eval_segs rho (segs_list false ch) = html_list ch).
    { unfold html_list. clear - IH Hch. induction IH as [|c r Hc _ IHr]; [reflexivity|].
      inversion Hch; subst. cbn [segs_list map List.concat]. rewrite (static_not_block c) by assumption. cbn [andb].
      rewrite eval_app, Hc, IHr by assumption. reflexivity. }
    destruct Hd as (_ & _ & _ & Hobj & Hcn & Hat & Hcmd & Hni & Hno).
    rewrite Hni, Hno. rewrite !app_nil_l. unfold elem_segs. rewrite Hcn, Hobj, Hcmd, app_nil_r.
    rewrite !eval_app. unfold attrs_segs, elem_attrs. rewrite Hcn, (eval_attrs_static rho _ Hat). unfold elem_open_html, id_class_html.
    destruct (e_selfclosing d).
    + cbn. rewrite !app_nil_r, <- !app_assoc. reflexivity.
    + rewrite eval_app. destruct (only_newline ch); [|rewrite Hk]; cbn; rewrite ?app_nil_r, <- ?app_assoc; reflexivity.
  - destruct Hs as [Hne _]. destruct (t_lit origin) as [|c0 c]; [congruence|]. cbn. rewrite app_nil_r. reflexivity.
  - destruct Hs as (_ & Hd & _). rewrite Hd. cbn. rewrite app_nil_r. reflexivity.
Qed.
