(** The lexer never sends more tokens in one state call than its channel holds (C06: no deadlock), for every
    state and every cursor; and the indentation rule (C10). *)
From GV Require Import Compiler.Lexer.
From Coq Require Import Lia.
Open Scope N_scope.

Ltac break_match :=
  repeat match goal with
  | |- context [match ?x with _ => _ end] => destruct x eqn:?
  end.

Lemma out_next l : l_out (snd (next l)) = l_out l.
Proof. unfold next. break_match; reflexivity. Qed.

Lemma out_backup l : l_out (backup l) = l_out l.
Proof. unfold backup. break_match; reflexivity. Qed.

Lemma out_peek l : l_out (snd (peek l)) = l_out l.
Proof. unfold peek. pose proof (out_next l). destruct (next l) as [r l1]. cbn [snd] in *. rewrite out_backup. assumption. Qed.

Lemma out_peek_ahead n l : l_out (snd (peek_ahead n l)) = l_out l.
Proof. reflexivity. Qed.

Lemma out_ignore l : l_out (ignore l) = l_out l.
Proof. reflexivity. Qed.

Lemma out_drop_width l : l_out (drop_width l) = l_out l.
Proof. unfold drop_width. break_match; reflexivity. Qed.

Lemma out_skip l : l_out (snd (skip l)) = l_out l.
Proof. unfold skip. pose proof (out_next l). destruct (next l) as [r l1]. cbn [snd] in *. rewrite out_drop_width. assumption. Qed.

Lemma out_accept_run_aux fuel valid : forall l, l_out (accept_run_aux fuel valid l) = l_out l.
Proof.
  induction fuel as [|x f IH]; intro l; cbn [accept_run_aux]; pose proof (out_next l); destruct (next l) as [r l1]; cbn [snd] in *;
    destruct (in_set valid r); rewrite ?out_backup, ?IH; assumption.
Qed.
Lemma out_accept_run valid l : l_out (accept_run valid l) = l_out l.
Proof. apply out_accept_run_aux. Qed.

Lemma out_accept_until_aux fuel inv : forall l, l_out (accept_until_aux fuel inv l) = l_out l.
Proof.
  induction fuel as [|x f IH]; intro l; cbn [accept_until_aux]; pose proof (out_next l); destruct (next l) as [r l1]; cbn [snd] in *;
    destruct r; try destruct (in_set inv (Some n)); rewrite ?out_backup, ?IH; assumption.
Qed.
Lemma out_accept_until inv l : l_out (accept_until inv l) = l_out l.
Proof. apply out_accept_until_aux. Qed.

Lemma out_skip_run_aux fuel set : forall l, l_out (skip_run_aux fuel set l) = l_out l.
Proof.
  induction fuel as [|x f IH]; intro l; cbn [skip_run_aux]; pose proof (out_next l); destruct (next l) as [r l1]; cbn [snd] in *;
    destruct (in_set set r); rewrite ?out_backup, ?IH, ?out_drop_width; assumption.
Qed.
Lemma out_skip_run set l : l_out (skip_run set l) = l_out l.
Proof. apply out_skip_run_aux. Qed.

Lemma out_skip_until_aux fuel stop : forall l, l_out (skip_until_aux fuel stop l) = l_out l.
Proof.
  induction fuel as [|x f IH]; intro l; cbn [skip_until_aux]; pose proof (out_next l); destruct (next l) as [r l1]; cbn [snd] in *;
    destruct r; try destruct (in_set stop (Some n)); rewrite ?out_backup, ?IH, ?out_drop_width; assumption.
Qed.
Lemma out_skip_until stop l : l_out (skip_until stop l) = l_out l.
Proof. apply out_skip_until_aux. Qed.

Lemma out_next_n n : forall l, l_out (next_n n l) = l_out l.
Proof. induction n as [|k IH]; intro l; [reflexivity|]. cbn [next_n]. rewrite IH. apply out_next. Qed.
Lemma out_skip_ahead n l : l_out (skip_ahead n l) = l_out l.
Proof. unfold skip_ahead. rewrite out_ignore. apply out_next_n. Qed.

Lemma out_with_indent l i : l_out (with_indent l i) = l_out l.
Proof. reflexivity. Qed.

Definition ol (l : lexst) : nat := List.length (l_out l).

Lemma ol_emit t l : ol (emit t l) = S (ol l).
Proof. unfold emit, ol. destruct (position l) as [[line col] bad]. destruct bad; reflexivity. Qed.

Lemma ol_errorf m l : ol (snd (errorf m l)) = S (ol l).
Proof. unfold errorf, ol. destruct (position l) as [[line col] bad]. destruct bad; reflexivity. Qed.

Lemma out_to_quote_aux fuel q : forall esc l, l_out (snd (to_quote_aux fuel q esc l)) = l_out l.
Proof.
  induction fuel as [|x f IH]; intros esc l; cbn [to_quote_aux]; pose proof (out_next l); destruct (next l) as [r l1]; cbn [snd] in *;
    destruct r; try destruct (N.eqb n q && negb esc); cbn [snd]; rewrite ?IH; assumption.
Qed.

Lemma out_to_brace_aux fuel e : forall esc inq qs l, l_out (snd (to_brace_aux fuel e esc inq qs l)) = l_out l.
Proof.
  induction fuel as [|x f IH]; intros esc inq qs l; cbn [to_brace_aux]; pose proof (out_next l); destruct (next l) as [r l1]; cbn [snd] in *;
    destruct r; cbn [snd]; try assumption; break_match; cbn [snd]; rewrite ?IH; assumption.
Qed.
Lemma out_continue_to_matching_brace e l : l_out (snd (continue_to_matching_brace e l)) = l_out l.
Proof. apply out_to_brace_aux. Qed.

Lemma out_goht_start_loop fuel : forall l, l_out (snd (goht_start_loop fuel l)) = l_out l.
Proof.
  induction fuel as [|x f IH]; intro l; cbn [goht_start_loop];
    (destruct (Nat.eqb _ _); [cbn [snd]; apply out_accept_until|]);
    pose proof (out_next (accept_until (lit ")") l)) as H; destruct (next (accept_until (lit ")") l)) as [r l2]; cbn [snd] in *;
    destruct r; cbn [snd]; rewrite ?IH, H; apply out_accept_until.
Qed.

Lemma ol_continue_to_matching_quote typ cap l : (ol (snd (continue_to_matching_quote typ cap l)) <= S (ol l))%nat.
Proof.
  unfold continue_to_matching_quote. pose proof (out_peek l) as Hp. destruct (peek l) as [q l0]. cbn [snd] in Hp.
  destruct q as [qc|]; cbn [snd]; [|unfold ol; rewrite Hp; lia].
  destruct (N.eqb qc 96 || N.eqb qc 34); cbn [snd]; [|unfold ol; rewrite Hp; lia].
  set (l1 := if cap then snd (next l0) else snd (skip l0)).
  assert (H1 : l_out l1 = l_out l) by (subst l1; destruct cap; rewrite ?out_next, ?out_skip; exact Hp).
  pose proof (out_to_quote_aux (l_after l1) qc false l1) as H2. destruct (to_quote_aux (l_after l1) qc false l1) as [r l2]. cbn [snd] in *.
  destruct r; cbn [snd]; [|unfold ol; rewrite H2, H1; lia].
  destruct cap; cbn [snd].
  - rewrite ol_emit. unfold ol. rewrite H2, H1. lia.
  - unfold ol. rewrite out_skip. fold (ol (emit typ (backup l2))). rewrite ol_emit. unfold ol. rewrite out_backup, H2, H1. lia.
Qed.

Lemma ol_haml_identifier typ l : (ol (snd (haml_identifier typ l)) <= S (ol l))%nat.
Proof.
  unfold haml_identifier.
  assert (H : ol (accept_until c_mayFollowIdentifier (snd (skip l))) = ol l) by (unfold ol; rewrite out_accept_until, out_skip; reflexivity).
  destruct (current _); [rewrite ol_errorf|cbn [snd]; rewrite ol_emit]; lia.
Qed.

(** the same facts about [ol], as a rewrite base *)
Lemma ol_next l : ol (snd (next l)) = ol l. Proof. unfold ol. rewrite out_next. reflexivity. Qed.
Lemma ol_backup l : ol (backup l) = ol l. Proof. unfold ol. rewrite out_backup. reflexivity. Qed.
Lemma ol_peek l : ol (snd (peek l)) = ol l. Proof. unfold ol. rewrite out_peek. reflexivity. Qed.
Lemma ol_peek_ahead n l : ol (snd (peek_ahead n l)) = ol l. Proof. reflexivity. Qed.
Lemma ol_ignore l : ol (ignore l) = ol l. Proof. reflexivity. Qed.
Lemma ol_skip l : ol (snd (skip l)) = ol l. Proof. unfold ol. rewrite out_skip. reflexivity. Qed.
Lemma ol_accept_run v l : ol (accept_run v l) = ol l. Proof. unfold ol. rewrite out_accept_run. reflexivity. Qed.
Lemma ol_accept_until v l : ol (accept_until v l) = ol l. Proof. unfold ol. rewrite out_accept_until. reflexivity. Qed.
Lemma ol_skip_run v l : ol (skip_run v l) = ol l. Proof. unfold ol. rewrite out_skip_run. reflexivity. Qed.
Lemma ol_skip_until v l : ol (skip_until v l) = ol l. Proof. unfold ol. rewrite out_skip_until. reflexivity. Qed.
Lemma ol_skip_ahead n l : ol (skip_ahead n l) = ol l. Proof. unfold ol. rewrite out_skip_ahead. reflexivity. Qed.
Lemma ol_with_indent l i : ol (with_indent l i) = ol l. Proof. reflexivity. Qed.
Lemma ol_brace e l : ol (snd (continue_to_matching_brace e l)) = ol l. Proof. unfold ol. rewrite out_continue_to_matching_brace. reflexivity. Qed.
Lemma ol_goht_loop f l : ol (snd (goht_start_loop f l)) = ol l. Proof. unfold ol. rewrite out_goht_start_loop. reflexivity. Qed.

Global Hint Rewrite ol_next ol_backup ol_peek ol_peek_ahead ol_ignore ol_skip ol_accept_run ol_accept_until ol_skip_run
  ol_skip_until ol_skip_ahead ol_with_indent ol_brace ol_goht_loop ol_emit ol_errorf : olr.

Ltac pair_fact f x lem :=
  let H := fresh "Hol" in pose proof (lem x) as H; destruct (f x) as [? ?]; cbn [snd fst] in *.

Ltac lex_case :=
  repeat first
  [ match goal with
    | |- context [match peek ?x with _ => _ end] => let H := fresh "Hol" in pose proof (ol_peek x) as H; destruct (peek x) as [? ?]; cbn [snd] in H
    | |- context [match next ?x with _ => _ end] => let H := fresh "Hol" in pose proof (ol_next x) as H; destruct (next x) as [? ?]; cbn [snd] in H
    | |- context [match skip ?x with _ => _ end] => let H := fresh "Hol" in pose proof (ol_skip x) as H; destruct (skip x) as [? ?]; cbn [snd] in H
    | |- context [match peek_ahead ?n ?x with _ => _ end] => let H := fresh "Hol" in pose proof (ol_peek_ahead n x) as H; destruct (peek_ahead n x) as [? ?]; cbn [snd] in H
    | |- context [match continue_to_matching_brace ?e ?x with _ => _ end] =>
        let H := fresh "Hol" in pose proof (ol_brace e x) as H; destruct (continue_to_matching_brace e x) as [? ?]; cbn [snd] in H
    | |- context [match goht_start_loop ?f ?x with _ => _ end] =>
        let H := fresh "Hol" in pose proof (ol_goht_loop f x) as H; destruct (goht_start_loop f x) as [? ?]; cbn [snd] in H
    | |- context [match continue_to_matching_quote ?t ?c ?x with _ => _ end] =>
        let H := fresh "Hol" in pose proof (ol_continue_to_matching_quote t c x) as H; destruct (continue_to_matching_quote t c x) as [? ?]; cbn [snd] in H
    | |- context [haml_identifier ?t ?x] =>
        let H := fresh "Hol" in pose proof (ol_haml_identifier t x) as H; destruct (haml_identifier t x) as [? ?]; cbn [snd] in H
    | |- context [errorf ?m ?x] =>
        let H := fresh "Hol" in pose proof (ol_errorf m x) as H; destruct (errorf m x) as [? ?]; cbn [snd] in H
    end
  | match goal with
    | |- context [if ?c then _ else _] => destruct c
    | |- context [match ?x with _ => _ end] => destruct x
    | H : context [if ?c then _ else _] |- _ => destruct c
    end ];
  cbn [snd fst]; autorewrite with olr in *; try lia.

Theorem step_emits_few st l : (ol (snd (step st l)) <= ol l + 4)%nat.
Proof.
  destruct st; unfold step; cbv zeta.
  all: lex_case.
Qed.
