(** progress of the lexer states of group 0 (see LexProgressProofs) *)
From GV Require Import Compiler.Lexer Proofs.LexProofs Proofs.LexProgressProofs.
From Coq Require Import Lia.
Open Scope N_scope.

Lemma progress_g0 st l : st <> SNil -> grp st = 0%nat -> progress st l.
Proof.
  intros Hst Hg. destruct st; cbn [grp] in Hg; try discriminate Hg; try congruence; clear Hg Hst.
  all: prog_group.
Qed.
