(** The bytewise string order is a total order and [sort_bytes] depends only on
    the multiset of its input (used for map-iteration-order independence). *)
From GV Require Import Base.Bytes.
From Coq Require Import Sorting.Permutation Sorting.Sorted.
Open Scope N_scope.

Lemma bltb_asym a : forall b, bltb a b = true -> bltb b a = false.
Proof.
  induction a as [|x a IH]; intros [|y b] H; simpl in *; try discriminate; try reflexivity.
  destruct (N.ltb_spec x y) as [Hxy|Hxy].
  - destruct (N.ltb_spec y x); [lia|reflexivity].
  - destruct (N.ltb_spec y x) as [Hyx|Hyx]; [discriminate|]. apply IH; exact H.
Qed.

Lemma bleb_total a b : bleb a b = true \/ bleb b a = true.
Proof.
  unfold bleb. destruct (bltb b a) eqn:E.
  - right. rewrite (bltb_asym _ _ E). reflexivity.
  - left. reflexivity.
Qed.

Lemma bleb_antisym a : forall b, bleb a b = true -> bleb b a = true -> a = b.
Proof.
  unfold bleb. induction a as [|x a IH]; intros [|y b] H1 H2; simpl in *; try discriminate; try reflexivity.
  destruct (N.ltb_spec y x) as [Hyx|Hyx]; [discriminate|].
  destruct (N.ltb_spec x y) as [Hxy|Hxy]; [discriminate|].
  assert (x = y) by lia. subst. f_equal. apply IH; assumption.
Qed.

Lemma bleb_trans a : forall b c, bleb a b = true -> bleb b c = true -> bleb a c = true.
Proof.
  unfold bleb. induction a as [|x a IH]; intros [|y b] [|z c] H1 H2; simpl in *;
    try discriminate; try reflexivity.
  destruct (N.ltb_spec y x) as [Hyx|Hyx]; [discriminate|].
  destruct (N.ltb_spec z y) as [Hzy|Hzy]; [discriminate|].
  destruct (N.ltb_spec x y) as [Hxy|Hxy];
  destruct (N.ltb_spec y z) as [Hyz|Hyz];
  destruct (N.ltb_spec z x) as [Hzx|Hzx];
  destruct (N.ltb_spec x z) as [Hxz|Hxz]; try lia; try reflexivity.
  eapply IH; eassumption.
Qed.

Lemma bleb_refl a : bleb a a = true.
Proof. destruct (bleb_total a a); assumption. Qed.

Definition le (a b : bytes) : Prop := bleb a b = true.

Lemma insert_perm x l : Permutation (x :: l) (insert_sorted x l).
Proof.
  induction l as [|y l IH]; simpl; [apply Permutation_refl|].
  destruct (bleb x y); [apply Permutation_refl|].
  eapply Permutation_trans; [apply perm_swap|]. apply perm_skip. exact IH.
Qed.

Lemma sort_perm l : Permutation l (sort_bytes l).
Proof.
  induction l as [|x l IH]; simpl; [constructor|].
  eapply Permutation_trans; [apply perm_skip; exact IH|apply insert_perm].
Qed.

Lemma insert_sorted_sorted x l : StronglySorted le l -> StronglySorted le (insert_sorted x l).
Proof.
  induction 1 as [|y l Hs IH Hall]; simpl; [repeat constructor|].
  destruct (bleb x y) eqn:E.
  - constructor; [constructor; assumption|]. constructor; [exact E|].
    eapply Forall_impl; [|exact Hall]. intros z Hz. eapply bleb_trans; eassumption.
  - constructor; [exact IH|].
    assert (Hyx : le y x) by (destruct (bleb_total x y) as [H|H]; [congruence|exact H]).
    eapply Permutation_Forall; [apply insert_perm|]. constructor; assumption.
Qed.

Lemma sort_sorted l : StronglySorted le (sort_bytes l).
Proof. induction l; simpl; [constructor|apply insert_sorted_sorted; assumption]. Qed.

Lemma insert_comm x y l : StronglySorted le l ->
  insert_sorted x (insert_sorted y l) = insert_sorted y (insert_sorted x l).
Proof.
  induction 1 as [|z l Hs IH Hall].
  - cbn [insert_sorted].
    destruct (bleb x y) eqn:Exy, (bleb y x) eqn:Eyx; try reflexivity.
    + rewrite (bleb_antisym _ _ Exy Eyx). reflexivity.
    + destruct (bleb_total x y); congruence.
  - cbn [insert_sorted].
    destruct (bleb y z) eqn:Eyz, (bleb x z) eqn:Exz; cbn [insert_sorted]; rewrite ?Eyz, ?Exz.
    + destruct (bleb x y) eqn:Exy, (bleb y x) eqn:Eyx; try reflexivity.
      * rewrite (bleb_antisym _ _ Exy Eyx). reflexivity.
      * destruct (bleb_total x y); congruence.
    + destruct (bleb x y) eqn:Exy; [|reflexivity].
      assert (bleb x z = true) by (eapply bleb_trans; eassumption). congruence.
    + destruct (bleb y x) eqn:Eyx; [|reflexivity].
      assert (bleb y z = true) by (eapply bleb_trans; eassumption). congruence.
    + f_equal. exact IH.
Qed.

Theorem sort_perm_invariant l l' : Permutation l l' -> sort_bytes l = sort_bytes l'.
Proof.
  induction 1 as [|x l l' Hp IH|x y l|l l' l'' H1 IH1 H2 IH2]; simpl.
  - reflexivity.
  - rewrite IH. reflexivity.
  - apply insert_comm. apply sort_sorted.
  - congruence.
Qed.
