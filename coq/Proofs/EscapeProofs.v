(** html.EscapeString: output alphabet and round trip. *)
From GV Require Import Base.GoStr.
Open Scope N_scope.

Definition meta (b : N) : Prop := b = 60 \/ b = 62 \/ b = 34 \/ b = 39.

Lemma esc_byte_safe c b : In b (esc_byte c) -> ~ meta b.
Proof.
  unfold esc_byte, meta.
  destruct (N.eqb_spec c 38); [simpl; intuition lia|].
  destruct (N.eqb_spec c 39); [simpl; intuition lia|].
  destruct (N.eqb_spec c 60); [simpl; intuition lia|].
  destruct (N.eqb_spec c 62); [simpl; intuition lia|].
  destruct (N.eqb_spec c 34); [simpl; intuition lia|].
  simpl. intuition lia.
Qed.

Theorem escape_chars v b : In b (html_escape v) -> ~ meta b.
Proof.
  unfold html_escape. rewrite in_flat_map. intros [c [_ H]]. eapply esc_byte_safe; eauto.
Qed.

Lemma unesc_esc_byte c r : unesc 0 (esc_byte c ++ r) = c :: unesc 0 r.
Proof.
  unfold esc_byte.
  destruct (N.eqb_spec c 38); [subst; reflexivity|].
  destruct (N.eqb_spec c 39); [subst; reflexivity|].
  destruct (N.eqb_spec c 60); [subst; reflexivity|].
  destruct (N.eqb_spec c 62); [subst; reflexivity|].
  destruct (N.eqb_spec c 34); [subst; reflexivity|].
  cbn [app unesc].
  change (lit "&amp;") with (38 :: lit "amp;").
  change (lit "&#39;") with (38 :: lit "#39;").
  change (lit "&lt;") with (38 :: lit "lt;").
  change (lit "&gt;") with (38 :: lit "gt;").
  change (lit "&#34;") with (38 :: lit "#34;").
  cbn [has_prefix]. destruct (N.eqb_spec 38 c); [lia|]. reflexivity.
Qed.

Theorem unescape_escape v : html_unescape5 (html_escape v) = v.
Proof.
  unfold html_unescape5, html_escape. induction v as [|c v IH]; [reflexivity|].
  cbn [flat_map]. rewrite unesc_esc_byte. f_equal. exact IH.
Qed.

(** escaping is injective: distinct values stay distinct in the document *)
Corollary html_escape_inj a b : html_escape a = html_escape b -> a = b.
Proof. intro H. rewrite <- (unescape_escape a), <- (unescape_escape b), H. reflexivity. Qed.

Lemma html_escape_app a b : html_escape (a ++ b) = html_escape a ++ html_escape b.
Proof. unfold html_escape. apply flat_map_app. Qed.
