(** strconv.Quote followed by strconv.Unquote is the identity on every byte string (property C04):
    whatever static text the emitter quotes, Go reads back exactly that text, and nothing in it can end the literal. *)
From GV Require Import Base.GoStr Compiler.Parser Proofs.Utf8Proofs.
From Coq Require Import ZArith ZifyN ZifyBool ZifyNat Lia.
Open Scope N_scope.
Ltac Zify.zify_post_hook ::= Z.div_mod_to_equations.

(** * hexadecimal digits *)
Lemma hexv_digit d : d < 16 -> hexv (hex_digit d) = Some d.
Proof.
  intro H. unfold hex_digit, hexv. destruct (N.ltb_spec d 10).
  - destruct (N.leb_spec 48 (48 + d)); [|lia]. destruct (N.leb_spec (48 + d) 57); [|lia]. cbn [andb]. f_equal. lia.
  - destruct (N.leb_spec 48 (87 + d)); [|lia]. destruct (N.leb_spec (87 + d) 57); [lia|]. cbn [andb].
    destruct (N.leb_spec 97 (87 + d)); [|lia]. destruct (N.leb_spec (87 + d) 102); [|lia]. cbn [andb]. f_equal. lia.
Qed.

Lemma hex_n_snoc k : forall s acc,
  hex_n (S k) s acc =
  match hex_n k s acc with
  | Some (a, c :: r) => match hexv c with Some d => Some (a * 16 + d, r) | None => None end
  | _ => None
  end.
Proof.
  induction k as [|k IH]; intros s acc.
  - cbn [hex_n]. destruct s as [|c r]; [reflexivity|]. destruct (hexv c); reflexivity.
  - cbn [hex_n] in *. destruct s as [|c r]; [reflexivity|]. destruct (hexv c) as [v|]; [|reflexivity].
    specialize (IH r (acc * 16 + v)). cbn [hex_n] in IH. exact IH.
Qed.

Lemma hex_n_fixed k : forall v acc rest,
  v < 16 ^ N.of_nat k -> hex_n k (hex_fixed k v ++ rest) acc = Some (acc * 16 ^ N.of_nat k + v, rest).
Proof.
  induction k as [|k IH]; intros v acc rest Hv.
  - cbn [hex_fixed hex_n app]. cbn in Hv. f_equal. f_equal. cbn. lia.
  - rewrite hex_n_snoc. cbn [hex_fixed]. rewrite <- app_assoc.
    assert (Hp : 16 ^ N.of_nat (S k) = 16 * 16 ^ N.of_nat k) by (rewrite Nat2N.inj_succ, N.pow_succ_r'; reflexivity).
    rewrite IH by (rewrite Hp in Hv; lia).
    cbn [app]. rewrite hexv_digit by lia. f_equal. f_equal. rewrite Hp. lia.
Qed.

(** * one rune *)
Definition piece (s : bytes) : bytes :=
  match s with
  | [] => []
  | b :: _ =>
    match decode_rune s with
    | None => []
    | Some (r, n) => if Nat.eqb n 1 && N.eqb r 65533 then lit "\x" ++ hex_fixed 2 b else escaped_rune 34 r
    end
  end.

Lemma skipn_app_exact {A} (p rest : list A) : skipn (List.length p) (p ++ rest) = rest.
Proof. induction p as [|x p IH]; [reflexivity|]. exact IH. Qed.

Lemma encode_rune_ascii r : r < 128 -> encode_rune r = [r].
Proof. intro H. unfold encode_rune. destruct (N.ltb_spec r 128); [reflexivity|lia]. Qed.

Lemma encode_rune_head_high r : 128 <= r -> valid_rune r = true ->
  exists c t, encode_rune r = c :: t /\ 192 <= c.
Proof.
  intros H Hv. unfold encode_rune. destruct (N.ltb_spec r 128); [lia|].
  destruct (N.ltb_spec r 2048); [eexists; eexists; split; [reflexivity|lia]|].
  destruct ((55296 <=? r) && (r <=? 57343) || (1114111 <? r)); [eexists; eexists; split; [reflexivity|lia]|].
  destruct (N.ltb_spec r 65536); eexists; eexists; (split; [reflexivity|lia]).
Qed.

(** reading back the quoted form of the first rune of [s] yields that rune's bytes, in one step *)
Lemma unquote_piece s r n rest fu :
  bytes_ok s -> decode_rune s = Some (r, n) ->
  unquote_body (S fu) (piece s ++ rest) = option_map (app (firstn n s)) (unquote_body fu rest).
Proof.
  intros Hok Hd. unfold piece. destruct s as [|b t]; [discriminate|]. rewrite Hd.
  assert (Hb : b < 256) by (inversion Hok; assumption).
  destruct (Nat.eqb n 1 && N.eqb r 65533) eqn:Eerr.
  - (* an invalid byte: \xhh *)
    apply andb_true_iff in Eerr as [En Er]. apply Nat.eqb_eq in En. subst n.
    change (lit "\x") with [92; 120]. cbn [app unquote_body]. cbn [N.eqb Pos.eqb orb].
    change (hex_fixed 2 b ++ rest) with (hex_fixed 2 b ++ rest).
    rewrite (hex_n_fixed 2 b 0 rest) by (cbn; lia). cbn [firstn]. replace (0 * 16 ^ N.of_nat 2 + b) with b by lia.
    destruct (unquote_body fu rest); reflexivity.
  - assert (Hne : ~ (n = 1%nat /\ r = 65533)).
    { intros [-> ->]. cbn in Eerr. discriminate. }
    destruct (encode_decode _ _ _ Hd Hne) as [Henc Hval]. rewrite <- Henc.
    unfold escaped_rune.
    destruct (N.eqb r 34 || N.eqb r 92) eqn:Eq.
    + (* quote or backslash *)
      apply orb_true_iff in Eq as [Eq|Eq]; apply N.eqb_eq in Eq; subst r; cbn [app unquote_body];
        cbn [N.eqb Pos.eqb orb]; rewrite encode_rune_ascii by lia; destruct (unquote_body fu rest); reflexivity.
    + apply orb_false_iff in Eq as [Eq1 Eq2]. apply N.eqb_neq in Eq1, Eq2.
      destruct (is_print r) eqn:Ep.
      * (* printed as it is *)
        assert (Hhd : exists c t', encode_rune r = c :: t' /\ c <> 34 /\ c <> 10 /\ c <> 92).
        { destruct (N.ltb_spec r 128) as [Hlt|Hge].
          - rewrite encode_rune_ascii by exact Hlt. exists r, []. split; [reflexivity|].
            unfold is_print in Ep. destruct (N.ltb_spec r 128); [|lia]. apply andb_true_iff in Ep as [Ep1 Ep2].
            apply N.leb_le in Ep1. apply N.ltb_lt in Ep2. repeat split; lia.
          - destruct (encode_rune_head_high r Hge Hval) as [c [t' [He Hc]]]. exists c, t'. split; [exact He|]. repeat split; lia. }
        destruct Hhd as [c [t' [He [Hc1 [Hc2 Hc3]]]]].
        pose proof (decode_encode r rest Hval) as Hde. rewrite He in Hde. rewrite He. cbn [app] in Hde. cbn [app unquote_body].
        destruct (N.eqb_spec c 34); [congruence|]. destruct (N.eqb_spec c 10); [congruence|]. cbn [orb].
        destruct (N.eqb_spec c 92); [congruence|].
        rewrite Hde, He. change (c :: t' ++ rest) with ((c :: t') ++ rest). rewrite skipn_app_exact.
        destruct (unquote_body fu rest); reflexivity.
      * assert (Hsimple : forall e v, r = v -> v < 128 ->
                  N.eqb e 34 = false -> (N.eqb e 10 = false) ->
                  (forall fu' rest', unquote_body (S fu') (92 :: e :: rest') = option_map (cons v) (unquote_body fu' rest')) ->
                  unquote_body (S fu) ([92; e] ++ rest) = option_map (app (encode_rune r)) (unquote_body fu rest)).
        { intros e v -> Hv _ _ Hu. rewrite encode_rune_ascii by exact Hv. cbn [app]. rewrite Hu.
          destruct (unquote_body fu rest); reflexivity. }
        destruct (N.eqb_spec r 7); [subst; rewrite encode_rune_ascii by lia; change (lit "\a") with [92; 97]; cbn [app unquote_body]; cbn [N.eqb Pos.eqb orb]; destruct (unquote_body fu rest); reflexivity|].
        destruct (N.eqb_spec r 8); [subst; rewrite encode_rune_ascii by lia; change (lit "\b") with [92; 98]; cbn [app unquote_body]; cbn [N.eqb Pos.eqb orb]; destruct (unquote_body fu rest); reflexivity|].
        destruct (N.eqb_spec r 12); [subst; rewrite encode_rune_ascii by lia; change (lit "\f") with [92; 102]; cbn [app unquote_body]; cbn [N.eqb Pos.eqb orb]; destruct (unquote_body fu rest); reflexivity|].
        destruct (N.eqb_spec r 10); [subst; rewrite encode_rune_ascii by lia; change (lit "\n") with [92; 110]; cbn [app unquote_body]; cbn [N.eqb Pos.eqb orb]; destruct (unquote_body fu rest); reflexivity|].
        destruct (N.eqb_spec r 13); [subst; rewrite encode_rune_ascii by lia; change (lit "\r") with [92; 114]; cbn [app unquote_body]; cbn [N.eqb Pos.eqb orb]; destruct (unquote_body fu rest); reflexivity|].
        destruct (N.eqb_spec r 9); [subst; rewrite encode_rune_ascii by lia; change (lit "\t") with [92; 116]; cbn [app unquote_body]; cbn [N.eqb Pos.eqb orb]; destruct (unquote_body fu rest); reflexivity|].
        destruct (N.eqb_spec r 11); [subst; rewrite encode_rune_ascii by lia; change (lit "\v") with [92; 118]; cbn [app unquote_body]; cbn [N.eqb Pos.eqb orb]; destruct (unquote_body fu rest); reflexivity|].
        clear Hsimple.
        destruct (N.ltb r 32 || N.eqb r 127) eqn:Ectl.
        -- (* \xhh *)
           assert (Hr : r < 128) by (apply orb_true_iff in Ectl as [E|E]; [apply N.ltb_lt in E|apply N.eqb_eq in E]; lia).
           rewrite encode_rune_ascii by exact Hr.
           change (lit "\x") with [92; 120]. cbn [app unquote_body]. cbn [N.eqb Pos.eqb orb].
           rewrite (hex_n_fixed 2 r 0 rest) by (cbn; lia). replace (0 * 16 ^ N.of_nat 2 + r) with r by lia.
           destruct (unquote_body fu rest); reflexivity.
        -- rewrite Hval.
           destruct (N.ltb_spec r 65536) as [Hlt|Hge].
           ++ change (lit "\u") with [92; 117]. cbn [app unquote_body]. cbn [N.eqb Pos.eqb orb].
              rewrite (hex_n_fixed 4 r 0 rest) by (cbn; lia). replace (0 * 16 ^ N.of_nat 4 + r) with r by lia.
              rewrite Hval. reflexivity.
           ++ assert (Hmax : r <= 1114111).
              { unfold valid_rune in Hval. destruct (N.ltb_spec r 55296); [lia|]. cbn [orb] in Hval.
                apply andb_true_iff in Hval as [_ Hm]. apply N.leb_le in Hm. exact Hm. }
              change (lit "\U") with [92; 85]. cbn [app unquote_body]. cbn [N.eqb Pos.eqb orb].
              rewrite (hex_n_fixed 8 r 0 rest) by (cbn; lia). replace (0 * 16 ^ N.of_nat 8 + r) with r by lia.
              rewrite Hval. reflexivity.
Qed.

(** * the whole string *)
Lemma decode_rune_some b t : exists r n, decode_rune (b :: t) = Some (r, n) /\ (1 <= n <= List.length (b :: t))%nat.
Proof.
  unfold decode_rune.
  destruct (N.ltb b 128); [do 2 eexists; split; [reflexivity|cbn; lia]|].
  destruct (N.ltb b 194); [do 2 eexists; split; [reflexivity|cbn; lia]|].
  destruct (N.ltb b 224).
  { destruct t as [|b1 t]; [do 2 eexists; split; [reflexivity|cbn; lia]|].
    destruct (cont b1); do 2 eexists; (split; [reflexivity|cbn; lia]). }
  destruct (N.ltb b 240).
  { destruct t as [|b1 [|b2 t]]; try (do 2 eexists; split; [reflexivity|cbn; lia]).
    match goal with |- context [if ?c then _ else _] => destruct c end; do 2 eexists; (split; [reflexivity|cbn; lia]). }
  destruct (N.ltb b 245).
  { destruct t as [|b1 [|b2 [|b3 t]]]; try (do 2 eexists; split; [reflexivity|cbn; lia]).
    match goal with |- context [if ?c then _ else _] => destruct c end; do 2 eexists; (split; [reflexivity|cbn; lia]). }
  do 2 eexists; split; [reflexivity|cbn; lia].
Qed.

Lemma bytes_ok_skipn n s : bytes_ok s -> bytes_ok (skipn n s).
Proof.
  revert s. induction n as [|n IH]; intros s H; [exact H|]. destruct s as [|b t]; [exact H|].
  cbn [skipn]. apply IH. inversion H; assumption.
Qed.

Lemma quote_body_unfold f fq b t :
  quote_body_aux (f :: fq) (b :: t) = piece (b :: t) ++
    match decode_rune (b :: t) with Some (_, n) => quote_body_aux fq (skipn n (b :: t)) | None => [] end.
Proof.
  cbn [quote_body_aux]. unfold piece. destruct (decode_rune (b :: t)) as [[r n]|]; reflexivity.
Qed.

(** every rune of the input costs the reader one step; [steps] counts them *)
Lemma unquote_quote_aux : forall (k : nat) (s fq : bytes) (fu : nat),
  (List.length s <= k)%nat -> bytes_ok s -> (List.length s <= List.length fq)%nat -> (List.length s < fu)%nat ->
  unquote_body fu (quote_body_aux fq s) = Some s.
Proof.
  induction k as [|k IH]; intros s fq fu Hk Hok Hfq Hfu.
  - destruct s; [|cbn in Hk; lia]. destruct fu; [lia|]. destruct fq; reflexivity.
  - destruct s as [|b t].
    + destruct fu; [lia|]. destruct fq; reflexivity.
    + destruct fq as [|f fq]; [cbn in Hfq; lia|]. destruct fu as [|fu]; [lia|].
      rewrite quote_body_unfold.
      destruct (decode_rune_some b t) as [r [n [Hd Hn]]]. rewrite Hd.
      rewrite (unquote_piece (b :: t) r n _ fu Hok Hd).
      pose proof (skipn_length n (b :: t)) as Hsl.
      rewrite IH.
      * cbn [option_map]. f_equal. apply firstn_skipn.
      * cbn [List.length] in *. lia.
      * apply bytes_ok_skipn. exact Hok.
      * cbn [List.length] in *. lia.
      * cbn [List.length] in *. lia.
Qed.

Theorem unquote_quote_body s fu : bytes_ok s -> (List.length s < fu)%nat -> unquote_body fu (go_quote_body s) = Some s.
Proof. intros Hok Hfu. unfold go_quote_body. apply (unquote_quote_aux (List.length s)); auto. Qed.

(** the quoted form is at least as long as the text: the reader's fuel, the length of the body, is enough *)
Lemma piece_length s r n : bytes_ok s -> decode_rune s = Some (r, n) -> (1 <= List.length (piece s))%nat.
Proof.
  intros Hok Hd. unfold piece. destruct s as [|b t]; [discriminate|]. rewrite Hd.
  destruct (Nat.eqb n 1 && N.eqb r 65533); [cbn; lia|].
  unfold escaped_rune.
  destruct (N.eqb r 34 || N.eqb r 92); [cbn; lia|].
  destruct (is_print r).
  { unfold encode_rune. repeat match goal with |- context [if ?c then _ else _] => destruct c end; cbn; lia. }
  repeat match goal with |- context [if ?c then _ else _] => destruct c end; cbn; lia.
Qed.

Lemma quote_body_runes : forall (k : nat) (s fq : bytes),
  (List.length s <= k)%nat -> bytes_ok s -> (List.length s <= List.length fq)%nat ->
  forall fu, (List.length (quote_body_aux fq s) < fu)%nat -> unquote_body fu (quote_body_aux fq s) = Some s.
Proof.
  induction k as [|k IH]; intros s fq Hk Hok Hfq fu Hfu.
  - destruct s; [|cbn in Hk; lia]. destruct fu; [lia|]. destruct fq; reflexivity.
  - destruct s as [|b t].
    + destruct fu; [lia|]. destruct fq; reflexivity.
    + destruct fq as [|f fq]; [cbn in Hfq; lia|]. destruct fu as [|fu]; [lia|].
      rewrite quote_body_unfold in *.
      destruct (decode_rune_some b t) as [r [n [Hd Hn]]]. rewrite Hd in *.
      rewrite (unquote_piece (b :: t) r n _ fu Hok Hd).
      pose proof (skipn_length n (b :: t)) as Hsl.
      pose proof (piece_length (b :: t) r n Hok Hd) as Hpl.
      rewrite app_length in Hfu.
      rewrite IH.
      * cbn [option_map]. f_equal. apply firstn_skipn.
      * cbn [List.length] in *. lia.
      * apply bytes_ok_skipn. exact Hok.
      * cbn [List.length] in *. lia.
      * lia.
Qed.

Theorem go_unquote_quote s : bytes_ok s -> go_unquote (go_quote s) = Some s.
Proof.
  intro Hok. unfold go_quote, go_unquote. cbn [app].
  rewrite rev_app_distr. cbn [rev app]. rewrite rev_involutive. cbn [N.eqb Pos.eqb negb].
  unfold go_quote_body. apply (quote_body_runes (List.length s)); auto.
Qed.

(** * Chunks of a string literal
    The emitter builds one Go string literal out of several chunks written one after the other.
    [reads_as p s]: wherever chunk [p] stands inside a literal, Go reads it as exactly the bytes [s] and
    carries on with what follows; so no chunk can end the literal or swallow what comes after it. *)
Definition reads_as (p s : bytes) : Prop :=
  exists k : nat, (k <= List.length p)%nat /\
    forall rest fu, unquote_body (k + fu) (p ++ rest) = option_map (app s) (unquote_body fu rest).

Lemma option_map_app_nil (x : option bytes) : option_map (app []) x = x.
Proof. destruct x; reflexivity. Qed.

Lemma option_map_app_app a b (x : option bytes) : option_map (app a) (option_map (app b) x) = option_map (app (a ++ b)) x.
Proof. destruct x; cbn [option_map]; [rewrite app_assoc|]; reflexivity. Qed.

Lemma reads_as_nil : reads_as [] [].
Proof. exists 0%nat. split; [cbn; lia|]. intros rest fu. cbn [plus app]. symmetry. apply option_map_app_nil. Qed.

Lemma reads_as_app p1 s1 p2 s2 : reads_as p1 s1 -> reads_as p2 s2 -> reads_as (p1 ++ p2) (s1 ++ s2).
Proof.
  intros [k1 [Hk1 H1]] [k2 [Hk2 H2]]. exists (k1 + k2)%nat. split; [rewrite app_length; lia|].
  intros rest fu. rewrite <- app_assoc, <- Nat.add_assoc, H1, H2. apply option_map_app_app.
Qed.

(** a character Go takes as it stands *)
Definition plain (c : N) : Prop := c < 128 /\ c <> 34 /\ c <> 92 /\ c <> 10.

Lemma reads_as_plain_char c : plain c -> reads_as [c] [c].
Proof.
  intros [H1 [H2 [H3 H4]]]. exists 1%nat. split; [cbn; lia|]. intros rest fu.
  cbn [plus app unquote_body].
  destruct (N.eqb_spec c 34); [congruence|]. destruct (N.eqb_spec c 10); [congruence|]. cbn [orb].
  destruct (N.eqb_spec c 92); [congruence|].
  unfold decode_rune. destruct (N.ltb_spec c 128); [|lia]. rewrite encode_rune_ascii by lia. reflexivity.
Qed.

Lemma reads_as_plain p : Forall plain p -> reads_as p p.
Proof.
  induction 1 as [|c p Hc _ IH]; [apply reads_as_nil|].
  change (c :: p) with ([c] ++ p). apply reads_as_app; [apply reads_as_plain_char; exact Hc|exact IH].
Qed.

Lemma reads_as_escaped_quote : reads_as [92; 34] [34].
Proof.
  exists 1%nat. split; [cbn; lia|]. intros rest fu. cbn [plus app unquote_body]. cbn [N.eqb Pos.eqb orb].
  destruct (unquote_body fu rest); reflexivity.
Qed.

Lemma reads_as_escaped_newline : reads_as [92; 110] [10].
Proof.
  exists 1%nat. split; [cbn; lia|]. intros rest fu. cbn [plus app unquote_body]. cbn [N.eqb Pos.eqb orb].
  destruct (unquote_body fu rest); reflexivity.
Qed.

(** what strconv.Quote makes of any text reads as that text *)
Lemma reads_as_quote_aux : forall (k : nat) (s fq : bytes),
  (List.length s <= k)%nat -> bytes_ok s -> (List.length s <= List.length fq)%nat ->
  reads_as (quote_body_aux fq s) s.
Proof.
  induction k as [|k IH]; intros s fq Hk Hok Hfq.
  - destruct s; [|cbn in Hk; lia]. destruct fq; apply reads_as_nil.
  - destruct s as [|b t]; [destruct fq; apply reads_as_nil|].
    destruct fq as [|f fq]; [cbn in Hfq; lia|].
    rewrite quote_body_unfold.
    destruct (decode_rune_some b t) as [r [n [Hd Hn]]]. rewrite Hd.
    pose proof (skipn_length n (b :: t)) as Hsl.
    assert (Hgoal : reads_as (piece (b :: t) ++ quote_body_aux fq (skipn n (b :: t))) (firstn n (b :: t) ++ skipn n (b :: t)));
      [|rewrite firstn_skipn in Hgoal; exact Hgoal].
    apply reads_as_app.
    + exists 1%nat. split; [apply (piece_length _ r n Hok Hd)|]. intros rest fu. apply (unquote_piece _ r n rest fu Hok Hd).
    + apply IH; [cbn [List.length] in *; lia|apply bytes_ok_skipn; exact Hok|cbn [List.length] in *; lia].
Qed.

Theorem reads_as_quote s : bytes_ok s -> reads_as (go_quote_body s) s.
Proof. intro Hok. apply (reads_as_quote_aux (List.length s)); auto. Qed.

(** a literal made of chunks is read by Go as the concatenation of what the chunks stand for *)
Theorem reads_as_literal p s : reads_as p s -> go_unquote ([34] ++ p ++ [34]) = Some s.
Proof.
  intros [k [Hk H]]. unfold go_unquote. cbn [app].
  rewrite rev_app_distr. cbn [rev app]. rewrite rev_involutive. cbn [N.eqb Pos.eqb negb].
  replace (S (List.length p)) with (k + S (List.length p - k))%nat by lia.
  rewrite <- (app_nil_r p) at 2. rewrite H. cbn [unquote_body option_map]. rewrite app_nil_r. reflexivity.
Qed.

(** and conversely: an unescaped quote or a raw newline, the only things that end a Go literal early, are refused
    by the reader; so [reads_as] chunks contain neither in a position where it would count *)
Lemma unquote_rejects_raw_quote fu rest : unquote_body fu (34 :: rest) = None.
Proof. destruct fu; reflexivity. Qed.

Lemma unquote_rejects_raw_newline fu rest : unquote_body fu (10 :: rest) = None.
Proof. destruct fu; reflexivity. Qed.

Lemma bytes_ok_html_escape s : bytes_ok s -> bytes_ok (html_escape s).
Proof.
  unfold bytes_ok, html_escape. induction 1 as [|c s Hc _ IH]; [constructor|].
  cbn [flat_map]. apply Forall_app. split; [|exact IH].
  unfold esc_byte. repeat match goal with |- context [if ?c then _ else _] => destruct c end;
    repeat constructor; try exact Hc; cbn; lia.
Qed.
