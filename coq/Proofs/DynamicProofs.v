(** The code generated for a dynamic value (C02): in an escaping context the expression is wrapped in
    goht.EscapeString exactly once, in an unescaped context (`!=`, `!`, the plain filters) not at all. *)
From GV Require Import Compiler.Emit Proofs.EmitProofs Proofs.PassThroughProofs.
From Coq Require Import Lia.
Open Scope N_scope.

(** the Go expression written for a fragment: the fragment itself, or FormatString for `%verb expr` *)
Definition formatted_code (t : token) : bytes :=
  match fmt_text_match (t_lit t) with
  | Some (verb, expr) => lit "goht.FormatString(""" ++ verb ++ lit """, " ++ expr ++ lit ")"
  | None => t_lit t
  end.

Lemma write_formatted_text_txt sm t st : quiet st ->
  quiet (write_formatted_text sm t st) /\ snd (write_formatted_text sm t st) = snd st /\
  txt (write_formatted_text sm t st) = txt st ++ formatted_code t.
Proof.
  intro Q. unfold write_formatted_text, formatted_code. destruct (fmt_text_match (t_lit t)) as [[verb expr]|].
  - cbv zeta.
    destruct (tw_wr_quiet (lit "goht.FormatString(""") st Q) as [Q1 L1].
    destruct (tw_write_add_quiet sm verb (mkTok TDynamicText verb (t_line t) (t_col t)) _ Q1) as [Q2 L2].
    destruct (tw_wr_quiet (lit """, ") _ Q2) as [Q3 L3].
    match goal with |- context [tw_write_add sm expr ?tk ?s] => destruct (tw_write_add_quiet sm expr tk s Q3) as [Q4 L4] end.
    match goal with |- context [tw_wr (lit ")") ?s] => destruct (tw_wr_quiet (lit ")") s Q4) as [Q5 L5] end.
    split; [exact Q5|]. split; [rewrite L5, L4, L3, L2, L1; reflexivity|].
    rewrite tw_wr_txt by exact Q4. rewrite tw_write_add_txt by exact Q3. rewrite tw_wr_txt by exact Q2.
    rewrite tw_write_add_txt by exact Q1. rewrite tw_wr_txt by exact Q. rewrite <- !app_assoc. reflexivity.
  - destruct (tw_write_add_quiet sm (t_lit t) t st Q) as [Q1 L1]. split; [exact Q1|]. split; [exact L1|].
    apply tw_write_add_txt. exact Q.
Qed.

Lemma after_var_quiet st : quiet st ->
  quiet (after_var st) /\ snd (after_var st) = snd st /\ txt (after_var st) = txt st /\
  var_name_of st = lit "__var" ++ itoa (N.of_nat (S (w_num (fst st)))).
Proof.
  destruct st as [[o n l c a e] loc]. intros [He Hs]. cbn [fst snd w_err] in *. subst e.
  unfold after_var, var_name_of, get_var_name, quiet, txt. cbn. auto.
Qed.

Lemma tw_write_string_indent_txt x st : quiet st ->
  quiet (tw_write_string_indent x st) /\ snd (tw_write_string_indent x st) = snd st /\
  txt (tw_write_string_indent x st) = txt st ++ tabs (wl_indent (snd st)) ++ write_string_open ++ x ++ lit "); __err != nil { return }" ++ [10].
Proof.
  intros [He Hs]. unfold tw_write_string_indent, close_if_static. rewrite Hs.
  destruct (wr_quiet (tabs (wl_indent (snd st))) st He) as [E1 L1].
  destruct (wr_quiet write_string_open _ E1) as [E2 L2].
  destruct (wr_quiet x _ E2) as [E3 L3].
  destruct (wr_quiet (lit "); __err != nil { return }" ++ [10]) _ E3) as [E4 L4].
  split; [split; [exact E4|rewrite L4, L3, L2, L1; exact Hs]|]. split; [rewrite L4, L3, L2, L1; reflexivity|].
  assert (W : forall y s, w_err (fst s) = None -> txt (wr y s) = txt s ++ y).
  { intros y [[o n l c a e] loc]. cbn [fst w_err]. intros ->. unfold wr, write, w_write, txt. cbn [fst snd w_err w_out rev].
    rewrite concat_app. cbn. rewrite app_nil_r. reflexivity. }
  rewrite W by exact E3. rewrite W by exact E2. rewrite W by exact E1. rewrite W by exact He. rewrite <- !app_assoc. reflexivity.
Qed.

(** `= expr`, `#{expr}` in text and scripts *)
Theorem dynamic_text_code sm t st : quiet st ->
  let v := lit "__var" ++ itoa (N.of_nat (S (w_num (fst st)))) in
  let ind := tabs (wl_indent (snd st)) in
  txt (emit_dynamic sm t st) =
    txt st ++
    ind ++ lit "var " ++ v ++ lit " string" ++ [10] ++
    ind ++ lit "if " ++ v ++ lit ", __err = goht.CaptureErrors(" ++
      (if wl_unesc (snd st) then formatted_code t else lit "goht.EscapeString(" ++ formatted_code t ++ lit ")") ++
      lit "); __err != nil { return }" ++ [10] ++
    ind ++ write_string_open ++ v ++ lit "); __err != nil { return }" ++ [10].
Proof.
  intro Q. cbv zeta. unfold emit_dynamic. cbv zeta.
  destruct (after_var_quiet st Q) as (Q1 & L1 & T1 & Hv). rewrite Hv.
  set (v := lit "__var" ++ itoa (N.of_nat (S (w_num (fst st))))).
  destruct (tw_wri_quiet (lit "var " ++ v ++ lit " string" ++ [10]) _ Q1) as [Q2 L2].
  destruct (tw_wri_quiet (lit "if " ++ v ++ lit ", __err = goht.CaptureErrors(") _ Q2) as [Q3 L3].
  set (st3 := tw_wri (lit "if " ++ v ++ lit ", __err = goht.CaptureErrors(") _) in *.
  assert (T3 : txt st3 = txt st ++ tabs (wl_indent (snd st)) ++ (lit "var " ++ v ++ lit " string" ++ [10]) ++
                          tabs (wl_indent (snd st)) ++ lit "if " ++ v ++ lit ", __err = goht.CaptureErrors(").
  { subst st3. rewrite tw_wri_txt by exact Q2. rewrite tw_wri_txt by exact Q1. rewrite L2, L1, T1. rewrite <- !app_assoc. reflexivity. }
  assert (E3 : snd st3 = snd st) by (rewrite L3, L2, L1; reflexivity).
  rewrite E3.
  destruct (wl_unesc (snd st)) eqn:Eu.
  - destruct (write_formatted_text_txt sm t st3 Q3) as (Q5 & L5 & T5).
    destruct (tw_wr_quiet (lit "); __err != nil { return }" ++ [10]) _ Q5) as [Q7 L7].
    destruct (tw_write_string_indent_txt v _ Q7) as (_ & _ & T8).
    rewrite T8, L7, L5, E3. rewrite tw_wr_txt by exact Q5. rewrite T5, T3. rewrite <- !app_assoc. reflexivity.
  - destruct (tw_wr_quiet (lit "goht.EscapeString(") st3 Q3) as [Q4 L4].
    destruct (write_formatted_text_txt sm t _ Q4) as (Q5 & L5 & T5).
    destruct (tw_wr_quiet (lit ")") _ Q5) as [Q6 L6].
    destruct (tw_wr_quiet (lit "); __err != nil { return }" ++ [10]) _ Q6) as [Q7 L7].
    destruct (tw_write_string_indent_txt v _ Q7) as (_ & _ & T8).
    rewrite T8, L7, L6, L5, L4, E3. rewrite tw_wr_txt by exact Q6. rewrite tw_wr_txt by exact Q5. rewrite T5.
    rewrite tw_wr_txt by exact Q3. rewrite T3. rewrite <- !app_assoc. reflexivity.
Qed.

(** what closing an open string literal writes *)
Definition close_text (l : wlocal) : bytes :=
  lit """)" ++ (if wl_errh l then [] else [10]) ++
  (if wl_errh l then lit "; __err != nil { return }" ++ [10]
   else tabs (wl_indent l) ++ lit "if __err != nil { return }" ++ [10]).

Lemma wr_txt' y s : w_err (fst s) = None -> txt (wr y s) = txt s ++ y.
Proof.
  destruct s as [[o n l c a e] loc]. cbn [fst w_err]. intros ->. unfold wr, write, w_write, txt. cbn [fst snd w_err w_out rev].
  rewrite concat_app. cbn. rewrite app_nil_r. reflexivity.
Qed.

Lemma close_string_literal_txt st : w_err (fst st) = None ->
  quiet (close_string_literal st) /\ wl_indent (snd (close_string_literal st)) = wl_indent (snd st) /\
  wl_unesc (snd (close_string_literal st)) = wl_unesc (snd st) /\
  txt (close_string_literal st) = txt st ++ close_text (snd st).
Proof.
  intro He. unfold close_string_literal, add_err_handler, close_text.
  destruct (wl_errh (snd st)) eqn:Eh; cbn [fst snd set_local].
  - match goal with |- context [wr ?y ?s] => destruct (wr_quiet y s He) as [E1 L1]; rewrite (wr_txt' y s He) end.
    split; [split; [exact E1|rewrite L1; reflexivity]|]. rewrite L1. cbn [snd wl_indent wl_unesc]. repeat split.
  - match goal with |- context [wr ?y ?s] => destruct (wr_quiet y s He) as [E1 L1]; rewrite (wr_txt' y s He) end.
    split; [split; [exact E1|rewrite L1; reflexivity]|]. rewrite L1. cbn [snd wl_indent wl_unesc]. repeat split.
Qed.

(** a dynamic attribute value `name: #{expr}` : always escaped, whatever the context *)
Theorem dynamic_attr_value_code sm (origin : token) st1 :
  w_err (fst st1) = None -> wl_static (snd st1) = true ->
  txt (tw_wr (lit ")+""\""""); __err != nil { return }" ++ [10])
         (write_formatted_text sm origin (tw_wri (write_string_open ++ lit "goht.EscapeString(") st1))) =
    txt st1 ++ close_text (snd st1) ++
    tabs (wl_indent (snd st1)) ++ write_string_open ++ lit "goht.EscapeString(" ++ formatted_code origin ++
    lit ")+""\""""); __err != nil { return }" ++ [10].
Proof.
  intros He Hs.
  destruct (close_string_literal_txt st1 He) as (Q1 & I1 & _ & T1).
  assert (Hw : tw_wri (write_string_open ++ lit "goht.EscapeString(") st1 =
               wr (write_string_open ++ lit "goht.EscapeString(")
                  (wr (tabs (wl_indent (snd (close_string_literal st1)))) (close_string_literal st1))).
  { unfold tw_wri, tw_write_indent, close_if_static. rewrite Hs. reflexivity. }
  destruct Q1 as [E1 S1].
  destruct (wr_quiet (tabs (wl_indent (snd (close_string_literal st1)))) _ E1) as [E2 L2].
  destruct (wr_quiet (write_string_open ++ lit "goht.EscapeString(") _ E2) as [E3 L3].
  assert (Q3 : quiet (tw_wri (write_string_open ++ lit "goht.EscapeString(") st1)).
  { rewrite Hw. split; [exact E3|rewrite L3, L2; exact S1]. }
  destruct (write_formatted_text_txt sm origin _ Q3) as (Q4 & L4 & T4).
  rewrite tw_wr_txt by exact Q4. rewrite T4, Hw. rewrite wr_txt' by exact E2. rewrite wr_txt' by exact E1.
  rewrite T1, I1. rewrite <- !app_assoc. reflexivity.
Qed.
