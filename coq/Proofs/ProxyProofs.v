(** Invariants of the proxy state machine (properties C08, C09, C17). *)
From GV Require Import Proxy.Proxy.
Open Scope N_scope.

(** * finite maps as association lists *)
Lemma beqb_false_iff a b : beqb a b = false <-> a <> b.
Proof.
  split.
  - intros H E. subst. rewrite beqb_refl in H. discriminate.
  - intro H. destruct (beqb a b) eqn:E; [|reflexivity]. apply beqb_eq in E. contradiction.
Qed.

Lemma beqb_sym a b : beqb a b = beqb b a.
Proof.
  destruct (beqb a b) eqn:E.
  - apply beqb_eq in E. subst. symmetry. apply beqb_refl.
  - symmetry. apply beqb_false_iff. apply beqb_false_iff in E. congruence.
Qed.

Section Maps.
Context {A : Type}.

Lemma lookup_filter_other (k k' : bytes) (m : list (bytes * A)) :
  beqb k' k = false -> lookup k' (filter (fun kv => negb (beqb (fst kv) k)) m) = lookup k' m.
Proof.
  intro H. induction m as [|[x v] m IH]; [reflexivity|]. cbn [filter fst lookup].
  destruct (beqb x k) eqn:Ex; cbn [negb].
  - apply beqb_eq in Ex. subst x. rewrite H. exact IH.
  - cbn [lookup]. destruct (beqb k' x); [reflexivity|exact IH].
Qed.

Lemma lookup_filter_same (k : bytes) (m : list (bytes * A)) :
  lookup k (filter (fun kv => negb (beqb (fst kv) k)) m) = None.
Proof.
  induction m as [|[x v] m IH]; [reflexivity|]. cbn [filter fst].
  destruct (beqb x k) eqn:Ex; cbn [negb]; [exact IH|].
  cbn [lookup]. rewrite beqb_sym, Ex. exact IH.
Qed.

Lemma lookup_update_same (k : bytes) (v : A) m : lookup k (update k v m) = Some v.
Proof. unfold update. cbn [lookup]. rewrite beqb_refl. reflexivity. Qed.

Lemma lookup_update_other (k k' : bytes) (v : A) m : beqb k' k = false -> lookup k' (update k v m) = lookup k' m.
Proof. intro H. unfold update. cbn [lookup]. rewrite H. apply lookup_filter_other. exact H. Qed.

Lemma lookup_remove_same (k : bytes) (m : list (bytes * A)) : lookup k (remove k m) = None.
Proof. apply lookup_filter_same. Qed.

Lemma lookup_remove_other (k k' : bytes) (m : list (bytes * A)) : beqb k' k = false -> lookup k' (remove k m) = lookup k' m.
Proof. apply lookup_filter_other. Qed.
End Maps.

Section Proofs.
Variable compile : bytes -> compiled.
Notation step := (step compile).

(** the events the editor and gopls can cause (the two-part change is an internal refinement of EChange) *)
Definition whole (e : event) : bool := match e with EChange1 _ _ _ | EChange2 _ _ => false | _ => true end.

(** * C08: what the proxy stores for an open template is the compilation of its current buffer *)
Definition doc_coherent (st : pstate) (u : uri) : Prop :=
  forall text, lookup u (ps_srcs st) = Some text ->
    lookup u (ps_smc st) = Some (c_map (compile text)) /\
    lookup u (ps_gosrcs st) = Some (c_code (compile text)).

Definition Coherent (st : pstate) : Prop := forall u, doc_coherent st u.

Lemma coherent_init : Coherent ps_init.
Proof. intros u text H. discriminate. Qed.

Lemma parse_template_state st u text :
  let '(st', _, c) := parse_template compile st u text in
  ps_srcs st' = ps_srcs st /\ ps_smc st' = ps_smc st /\ ps_gosrcs st' = ps_gosrcs st /\ c = compile text.
Proof. unfold parse_template. destruct (c_err (compile text)); cbn; auto. Qed.

Lemma coherent_store st u text :
  Coherent st -> Coherent (store_compiled (mkPS (update u text (ps_srcs st)) (ps_smc st) (ps_gosrcs st) (ps_dgoht st) (ps_dgo st)) u (compile text)).
Proof.
  intros H v t Hv. unfold store_compiled in *. cbn [ps_srcs ps_smc ps_gosrcs] in *.
  destruct (beqb v u) eqn:E.
  - apply beqb_eq in E. subst v. rewrite lookup_update_same in Hv. inversion Hv; subst.
    rewrite !lookup_update_same. auto.
  - rewrite lookup_update_other in Hv by exact E. rewrite !lookup_update_other by exact E. apply H. exact Hv.
Qed.

Theorem coherent_step st e : whole e = true -> Coherent st -> Coherent (fst (fst (step st e))).
Proof.
  intros Hw H. destruct e; try discriminate; cbn [Proxy.step].
  - (* open *)
    destruct (is_goht_uri u); cbn [negb fst]; [|exact H].
    pose proof (parse_template_state (mkPS (update u text (ps_srcs st)) (ps_smc st) (ps_gosrcs st) (ps_dgoht st) (ps_dgo st)) u text) as P.
    destruct (parse_template compile _ u text) as [[st2 outs] c]. destruct P as [P1 [P2 [P3 ->]]]. cbn [fst].
    intros v t Hv. unfold store_compiled in *. cbn [ps_srcs ps_smc ps_gosrcs] in *. rewrite P1 in Hv. rewrite P2, P3.
    cbn [ps_srcs] in Hv.
    destruct (beqb v u) eqn:E.
    + apply beqb_eq in E. subst v. rewrite lookup_update_same in Hv. inversion Hv; subst. rewrite !lookup_update_same. auto.
    + rewrite lookup_update_other in Hv by exact E. rewrite !lookup_update_other by exact E. apply H. exact Hv.
  - (* change *)
    destruct (is_goht_uri u); cbn [negb fst]; [|exact H].
    destruct (lookup u (ps_srcs st)); [|exact H].
    pose proof (parse_template_state (mkPS (update u text (ps_srcs st)) (ps_smc st) (ps_gosrcs st) (ps_dgoht st) (ps_dgo st)) u text) as P.
    destruct (parse_template compile _ u text) as [[st2 outs] c]. destruct P as [P1 [P2 [P3 ->]]]. cbn [fst].
    intros v t Hv. unfold store_compiled in *. cbn [ps_srcs ps_smc ps_gosrcs] in *. rewrite P1 in Hv. rewrite P2, P3.
    cbn [ps_srcs] in Hv.
    destruct (beqb v u) eqn:E.
    + apply beqb_eq in E. subst v. rewrite lookup_update_same in Hv. inversion Hv; subst. rewrite !lookup_update_same. auto.
    + rewrite lookup_update_other in Hv by exact E. rewrite !lookup_update_other by exact E. apply H. exact Hv.
  - (* close *)
    destruct (is_goht_uri u); cbn [negb fst]; [|exact H].
    intros v t Hv. cbn [ps_srcs ps_smc ps_gosrcs] in *.
    destruct (beqb v u) eqn:E.
    + apply beqb_eq in E. subst v. rewrite lookup_remove_same in Hv. discriminate.
    + rewrite lookup_remove_other in Hv by exact E. rewrite lookup_remove_other by exact E. apply H. exact Hv.
  - (* save *)
    destruct (is_goht_uri u); cbn [negb fst]; exact H.
  - (* request *)
    destruct (position_method m).
    + destruct (update_position st u p) as [[gu q]|]; [|exact H].
      destruct answer as [ls|]; [|exact H]. destruct m; try exact H; destruct ls; exact H.
    + destruct (is_goht_uri u); cbn [negb]; [|exact H]. destruct answer as [ls|]; [|exact H]. destruct m; exact H.
  - (* gopls diagnostics *)
    destruct (lookup _ (ps_smc st)); [|exact H]. cbn [fst]. intros v t Hv. apply H. exact Hv.
  - (* gopls message *)
    destruct (has_prefix c_doNotEditMessage text); exact H.
Qed.

(** every reachable state is coherent *)
Theorem coherent_run es : forall st, forallb whole es = true -> Coherent st -> Coherent (fst (run compile st es)).
Proof.
  induction es as [|e es IH]; intros st Hw H; [exact H|].
  cbn [forallb] in Hw. apply andb_true_iff in Hw as [Hw1 Hw2].
  cbn [run]. pose proof (coherent_step st e Hw1 H) as H1.
  destruct (step st e) as [[st1 outs] r]. cbn [fst] in H1.
  specialize (IH st1 Hw2 H1). destruct (run compile st1 es) as [st2 tr]. exact IH.
Qed.

(** the text payloads: what is sent downstream for a template is the compilation of the buffer *)
Theorem open_payload st u lang ver text :
  is_goht_uri u = true ->
  exists outs, snd (fst (step st (EOpen u lang ver text))) = outs ++ [Ds (DsOpen (to_goht_go u) (lit "go") ver (c_code (compile text)))] /\
               forall o, In o outs -> exists d, o = Cl (ClDiag u d).
Proof.
  intro Hu. cbn [Proxy.step]. rewrite Hu. cbn [negb].
  pose proof (parse_template_state (mkPS (update u text (ps_srcs st)) (ps_smc st) (ps_gosrcs st) (ps_dgoht st) (ps_dgo st)) u text) as P.
  unfold parse_template in *. destruct (c_err (compile text)); cbn [fst snd]; eexists; (split; [reflexivity|]);
    intros o [<-|[]]; eexists; reflexivity.
Qed.

Theorem change_payload st u ver text old :
  is_goht_uri u = true -> lookup u (ps_srcs st) = Some old ->
  exists outs, snd (fst (step st (EChange u ver text))) = outs ++ [Ds (DsChange (to_goht_go u) ver (c_code (compile text)))] /\
               forall o, In o outs -> exists d, o = Cl (ClDiag u d).
Proof.
  intros Hu Ho. cbn [Proxy.step]. rewrite Hu, Ho. cbn [negb].
  unfold parse_template. destruct (c_err (compile text)); cbn [fst snd]; eexists; (split; [reflexivity|]);
    intros o [<-|[]]; eexists; reflexivity.
Qed.

Theorem save_payload st u t text :
  is_goht_uri u = true -> Coherent st -> lookup u (ps_srcs st) = Some text ->
  snd (fst (step st (ESave u (Some t)))) = [Ds (DsSave (to_goht_go u) (Some (c_code (compile text))))].
Proof.
  intros Hu H Hs. cbn [Proxy.step]. rewrite Hu. cbn [negb fst snd].
  destruct (H u text Hs) as [_ Hg]. rewrite Hg. reflexivity.
Qed.

Theorem close_forwards st u :
  is_goht_uri u = true -> snd (fst (step st (EClose u))) = [Ds (DsClose (to_goht_go u))].
Proof. intro Hu. cbn [Proxy.step]. rewrite Hu. reflexivity. Qed.

(** * C09: request positions *)
Theorem request_mapped st m u p answer gu q :
  position_method m = true -> update_position st u p = Some (gu, q) ->
  exists r, step st (EReq m u p answer) = (st, [Ds (DsReq m gu q)], r).
Proof.
  intros Hm Hp. cbn [Proxy.step]. rewrite Hm, Hp.
  destruct answer as [ls|]; [|eexists; reflexivity].
  destruct m; try discriminate; try (eexists; reflexivity); destruct ls; eexists; reflexivity.
Qed.

Theorem request_unmapped st m u p answer :
  position_method m = true -> update_position st u p = None ->
  step st (EReq m u p answer) = (st, [], REmpty).
Proof. intros Hm Hp. cbn [Proxy.step]. rewrite Hm, Hp. reflexivity. Qed.

(** the position asked downstream is the one the current buffer's map assigns *)
Theorem update_position_spec st u p gu q text :
  Coherent st -> lookup u (ps_srcs st) = Some text -> update_position st u p = Some (gu, q) ->
  gu = to_goht_go u /\ s2t_pos (c_map (compile text)) p = Some q.
Proof.
  intros H Hs Hp. unfold update_position in Hp. destruct (is_goht_uri u); cbn [negb] in Hp; [|discriminate].
  destruct (H u text Hs) as [Hm _]. rewrite Hm in Hp.
  destruct (s2t_pos (c_map (compile text)) p); inversion Hp; subst. auto.
Qed.

(** answers: a location in a generated template file is returned under the template's URI with both ends
    mapped through that file's map; any other location is returned unchanged *)
Theorem translate_loc_generated st l m :
  is_goht_go_uri (l_uri l) = true -> lookup (to_goht (l_uri l)) (ps_smc st) = Some m ->
  translate_loc st l =
    mkLoc (to_goht (l_uri l))
          (mkRange (match t2s_pos m (r_start (l_range l)) with Some p => p | None => r_start (l_range l) end)
                   (match t2s_pos m (r_end (l_range l)) with Some p => p | None => r_end (l_range l) end)).
Proof. intros Hg Hm. unfold translate_loc, go_range_to_goht. rewrite Hg, Hm. reflexivity. Qed.

Theorem translate_loc_other st l : is_goht_go_uri (l_uri l) = false -> translate_loc st l = l.
Proof. intro H. unfold translate_loc. rewrite H. reflexivity. Qed.

Theorem location_answers_translated st m u p ls gu q :
  (m = MDefinition \/ m = MDeclaration \/ m = MTypeDefinition \/ m = MImplementation \/ m = MReferences) ->
  update_position st u p = Some (gu, q) ->
  snd (step st (EReq m u p (Some ls))) = RLocs (map (translate_loc st) ls).
Proof.
  intros Hm Hp. cbn [Proxy.step].
  destruct Hm as [ Hm | [ Hm | [ Hm | [ Hm | Hm ] ] ] ]; subst m; cbn [position_method]; rewrite Hp; reflexivity.
Qed.

(** * C17: diagnostics *)
Definition diag_coherent (st : pstate) : Prop :=
  forall u text, lookup u (ps_srcs st) = Some text ->
    lookup u (ps_dgoht st) = Some (match c_err (compile text) with Some e => [compiler_diag e] | None => [] end).

Lemma diag_coherent_init : diag_coherent ps_init.
Proof. intros u text H. discriminate. Qed.

Lemma parse_template_diag st u text :
  let '(st', _, _) := parse_template compile st u text in
  ps_srcs st' = ps_srcs st /\ ps_dgo st' = ps_dgo st /\
  ps_dgoht st' = update u (match c_err (compile text) with Some e => [compiler_diag e] | None => [] end) (ps_dgoht st).
Proof. unfold parse_template. destruct (c_err (compile text)); cbn; auto. Qed.

(** preserved by every event, including the two halves of a change between which the other connection
    may deliver its message *)
Theorem diag_coherent_step st e : diag_coherent st -> diag_coherent (fst (fst (step st e))).
Proof.
  intro H.
  assert (Hpt : forall u text, diag_coherent
      (fst (fst (parse_template compile (mkPS (update u text (ps_srcs st)) (ps_smc st) (ps_gosrcs st) (ps_dgoht st) (ps_dgo st)) u text)))).
  { intros u text.
    pose proof (parse_template_diag (mkPS (update u text (ps_srcs st)) (ps_smc st) (ps_gosrcs st) (ps_dgoht st) (ps_dgo st)) u text) as P.
    destruct (parse_template compile _ u text) as [[st2 outs] c]. destruct P as [P1 [_ P3]]. cbn [fst].
    intros v t Hv. rewrite P1 in Hv. rewrite P3. cbn [ps_srcs ps_dgoht] in *.
    destruct (beqb v u) eqn:E.
    - apply beqb_eq in E. subst v. rewrite lookup_update_same in Hv. inversion Hv; subst. apply lookup_update_same.
    - rewrite lookup_update_other in Hv by exact E. rewrite lookup_update_other by exact E. apply H. exact Hv. }
  destruct e; cbn [Proxy.step].
  - destruct (is_goht_uri u); cbn [negb fst]; [|exact H].
    specialize (Hpt u text). destruct (parse_template compile _ u text) as [[st2 outs] c]. cbn [fst] in *.
    intros v t Hv. apply Hpt. exact Hv.
  - destruct (is_goht_uri u); cbn [negb fst]; [|exact H].
    destruct (lookup u (ps_srcs st)); [|exact H].
    specialize (Hpt u text). destruct (parse_template compile _ u text) as [[st2 outs] c]. cbn [fst] in *.
    intros v t Hv. apply Hpt. exact Hv.
  - destruct (is_goht_uri u); cbn [negb fst]; [|exact H].
    intros v t Hv. cbn [ps_srcs ps_dgoht] in *.
    destruct (beqb v u) eqn:E.
    + apply beqb_eq in E. subst v. rewrite lookup_remove_same in Hv. discriminate.
    + rewrite lookup_remove_other in Hv by exact E. apply H. exact Hv.
  - destruct (is_goht_uri u); cbn [negb fst]; exact H.
  - destruct (position_method m).
    + destruct (update_position st u p) as [[gu q]|]; [|exact H].
      destruct answer as [ls|]; [|exact H]. destruct m; try exact H; destruct ls; exact H.
    + destruct (is_goht_uri u); cbn [negb]; [|exact H]. destruct answer as [ls|]; [|exact H]. destruct m; exact H.
  - destruct (lookup _ (ps_smc st)); [|exact H]. cbn [fst]. intros v t Hv. apply H. exact Hv.
  - destruct (has_prefix c_doNotEditMessage text); exact H.
  - destruct (is_goht_uri u); cbn [negb fst]; [|exact H].
    destruct (lookup u (ps_srcs st)); [|exact H].
    specialize (Hpt u text). destruct (parse_template compile _ u text) as [[st2 outs] c]. cbn [fst] in *. exact Hpt.
  - destruct (lookup u (ps_srcs st)); [|exact H]. cbn [fst]. intros v t Hv. apply H. exact Hv.
Qed.

Theorem diag_coherent_run es : forall st, diag_coherent st -> diag_coherent (fst (run compile st es)).
Proof.
  induction es as [|e es IH]; intros st H; [exact H|].
  cbn [run]. pose proof (diag_coherent_step st e H) as H1.
  destruct (step st e) as [[st1 outs] r]. cbn [fst] in H1.
  specialize (IH st1 H1). destruct (run compile st1 es) as [st2 tr]. exact IH.
Qed.

(** a publication of gopls reaches the editor under the template's URI, with the compiler's own
    diagnostics in front: present exactly while the stored buffer fails to compile *)
Theorem go_diag_delivery st gu ds text m :
  diag_coherent st -> is_goht_go_uri gu = true -> lookup (to_goht gu) (ps_srcs st) = Some text ->
  lookup (to_goht gu) (ps_smc st) = Some m ->
  snd (fst (step st (EGoDiag gu ds))) =
    [Cl (ClDiag (to_goht gu) ((match c_err (compile text) with Some e => [compiler_diag e] | None => [] end) ++ map (translate_diag m) ds))].
Proof.
  intros H Hg Hs Hm. cbn [Proxy.step]. rewrite Hg, Hm. cbn [fst snd].
  unfold get_diags. rewrite (H _ _ Hs). reflexivity.
Qed.

(** the compiler's error is located where the compiler reported it (protocol positions are zero based) *)
Theorem compiler_diag_position l c msg :
  (1 <= l)%Z -> (1 <= c)%Z ->
  d_range (compiler_diag (Some (l, c), msg)) = mkRange (mkPos (l - 1) (c - 1)) (mkPos (l - 1) (c - 1)) /\
  d_goht (compiler_diag (Some (l, c), msg)) = true.
Proof.
  intros Hl Hc. unfold compiler_diag. cbn [fst snd].
  destruct (Z.ltb_spec l 1); [lia|]. destruct (Z.ltb_spec c 1); [lia|]. auto.
Qed.

(** range translation *)
Theorem translate_diag_same_line m d s :
  t2s_pos m (r_start (d_range d)) = Some s -> p_line (r_start (d_range d)) = p_line (r_end (d_range d)) ->
  d_range (translate_diag m d) =
    mkRange s (mkPos (p_line s) (p_char s + (p_char (r_end (d_range d)) - p_char (r_start (d_range d))))%Z).
Proof. intros Hs Hl. unfold translate_diag. rewrite Hs, Hl, Z.eqb_refl. reflexivity. Qed.

Theorem translate_diag_multi_line m d s e :
  t2s_pos m (r_start (d_range d)) = Some s -> p_line (r_start (d_range d)) <> p_line (r_end (d_range d)) ->
  t2s_pos m (r_end (d_range d)) = Some e ->
  d_range (translate_diag m d) = mkRange s e.
Proof.
  intros Hs Hl He. unfold translate_diag. rewrite Hs.
  destruct (Z.eqb_spec (p_line (r_start (d_range d))) (p_line (r_end (d_range d)))); [contradiction|].
  rewrite He. reflexivity.
Qed.

(** messages are relayed, except the do-not-edit warning *)
Theorem message_relay st text :
  snd (fst (step st (EGoMsg text))) = if has_prefix c_doNotEditMessage text then [] else [Cl (ClMsg text)].
Proof. cbn [Proxy.step]. destruct (has_prefix c_doNotEditMessage text); reflexivity. Qed.

End Proofs.

(** * URIs *)
Lemma has_suffix_last (suf u : bytes) x y : has_suffix (suf ++ [x]) (u ++ [y]) = true -> x = y.
Proof.
  unfold has_suffix. rewrite !rev_app_distr. cbn [rev app has_prefix].
  intro H. apply andb_true_iff in H as [H _]. apply N.eqb_eq in H. exact H.
Qed.

(** a generated-file URI never ends in ".goht": template URIs are not shown downstream *)
Theorem generated_uri_not_template u : is_goht_uri (to_goht_go u) = false.
Proof.
  unfold is_goht_uri, to_goht_go, suffix_goht.
  destruct (has_suffix c_GohtFileExtension (u ++ lit ".go")) eqn:E; [|reflexivity].
  change c_GohtFileExtension with (lit ".goh" ++ [116]) in E.
  change (lit ".go") with (lit ".g" ++ [111]) in E. rewrite app_assoc in E.
  apply has_suffix_last in E. discriminate.
Qed.

(** a template URI is never a generated-file URI: nothing is published to the editor under one *)
Theorem template_uri_not_generated u : is_goht_uri u = true -> is_goht_go_uri u = false.
Proof.
  unfold is_goht_uri, is_goht_go_uri, suffix_goht, suffix_goht_go. intro H.
  destruct (has_suffix c_GeneratedFileExtension u) eqn:E; [|reflexivity].
  destruct (rev u) as [|y r] eqn:Er.
  - unfold has_suffix in H. rewrite Er in H. discriminate.
  - assert (Hu : u = rev r ++ [y]) by (rewrite <- (rev_involutive u), Er; reflexivity).
    rewrite Hu in H, E.
    change c_GohtFileExtension with (lit ".goh" ++ [116]) in H. apply has_suffix_last in H.
    change c_GeneratedFileExtension with (lit ".goht.g" ++ [111]) in E. apply has_suffix_last in E.
    congruence.
Qed.
