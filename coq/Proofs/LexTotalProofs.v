(** The lexer's total work is linear (C06): every state call -- whether it sends a token or not -- leaves fewer
    bytes in the reader or moves down in a rank that depends on the state and on the first rune the reader holds;
    so at most [levels * (bytes + 1)] state calls lead from any state and cursor to the final state. *)
From GV Require Import Compiler.Lexer Proofs.LexProofs Proofs.LexProgressProofs.
From Coq Require Import Lia.
Open Scope N_scope.

(** * more about loops and the first rune *)
Lemma hd_pos l c : hd_rune l = Some c -> (0 < A l)%nat.
Proof. unfold hd_rune, A. destruct (l_after l); [discriminate|cbn; lia]. Qed.

Lemma skip_run_strict set l c : hd_rune l = Some c -> mem_byte c set = true -> (A (skip_run set l) < A l)%nat.
Proof.
  intros Hh Hm. unfold skip_run. pose proof (next_fst l) as Hf. rewrite Hh in Hf.
  pose proof (next_strict l (hd_pos l c Hh)) as Hs.
  destruct (l_after l) as [|b f]; cbn [skip_run_aux]; destruct (next l) as [r l1]; cbn [fst snd] in *; subst r; cbn [in_set]; rewrite Hm; cbv iota;
    destruct (drop_width_RK l1) as [Ha _].
  - rewrite Ha. exact Hs.
  - pose proof (skip_run_aux_RD f set (drop_width l1)) as Hr. unfold RD in Hr. rewrite Ha in Hr.
    apply Nat.le_lt_trans with (m := A l1); [|exact Hs]. apply Nat.le_trans with (2 := Hr). apply Nat.le_add_r.
Qed.

Lemma skip_until_stop stop l c : hd_rune l = Some c -> mem_byte c stop = true -> skip_until stop l = snd (peek l).
Proof.
  intros Hh Hm. unfold skip_until, peek. pose proof (next_fst l) as Hf. rewrite Hh in Hf.
  destruct (l_after l) as [|b f]; cbn [skip_until_aux]; destruct (next l) as [r l1]; cbn [fst snd] in *; subst r; cbn [in_set]; rewrite Hm; reflexivity.
Qed.

(** the rune after [accept_until] / [skip_until] is one of the set, or the input has ended *)
Lemma accept_until_aux_stops inv : forall fuel l, (A l <= List.length fuel)%nat ->
  match hd_rune (accept_until_aux fuel inv l) with Some c => mem_byte c inv = true | None => True end.
Proof.
  induction fuel as [|x f IH]; intros l Hl.
  - assert (E : A l = 0%nat) by (cbn in Hl; lia). cbn [accept_until_aux].
    pose proof (next_eof l E) as He. destruct (peek_reader l) as (Hq1 & _ & _). unfold peek in Hq1.
    destruct (next l) as [r l1]. cbn [fst snd] in *. subst r.
    unfold hd_rune. rewrite Hq1. unfold A in E. apply length_zero_iff_nil in E. rewrite E. exact I.
  - cbn [accept_until_aux]. pose proof (next_fst l) as Hf. pose proof (next_strict l) as Hst.
    destruct (peek_reader l) as (Hq1 & _ & Hq3). unfold peek in Hq1, Hq3.
    destruct (next l) as [r l1]. cbn [fst snd] in *.
    destruct r as [c|].
    + destruct (in_set inv (Some c)) eqn:Ei.
      * unfold hd_rune at 1. rewrite Hq1. fold (hd_rune l). rewrite <- Hf. exact Ei.
      * apply IH. assert (Hp : (0 < A l)%nat) by (apply (hd_pos l c); symmetry; exact Hf). specialize (Hst Hp). cbn [List.length] in Hl. lia.
    + unfold hd_rune at 1. rewrite Hq1. fold (hd_rune l). rewrite <- Hf. exact I.
Qed.
Lemma accept_until_stops inv l :
  match hd_rune (accept_until inv l) with Some c => mem_byte c inv = true | None => True end.
Proof. apply accept_until_aux_stops. unfold A. lia. Qed.

(** a matching brace or quote that was found was read *)
Lemma to_brace_aux_strict fuel e : forall esc inq qs l c l',
  to_brace_aux fuel e esc inq qs l = (Some c, l') -> (A l' < A l)%nat.
Proof.
  induction fuel as [|x f IH]; intros esc inq qs l c0 l' H; cbn [to_brace_aux] in H; pose proof (next_strict l) as Hs;
    pose proof (next_eof l) as He; destruct (next l) as [r l1]; cbn [fst snd] in *;
    (destruct r as [c|]; [|discriminate]);
    assert (Hp : (A l1 < A l)%nat) by (destruct (Nat.eq_dec (A l) 0) as [E|N]; [specialize (He E); discriminate|apply Hs; lia]);
    repeat match type of H with context [if ?b then _ else _] => destruct b end; try discriminate;
    try (injection H as _ <-; exact Hp); apply IH in H; lia.
Qed.
Lemma brace_strict e l :
  match fst (continue_to_matching_brace e l) with Some _ => (A (snd (continue_to_matching_brace e l)) < A l)%nat | None => True end.
Proof.
  unfold continue_to_matching_brace. destruct (to_brace_aux (l_after l) e false false 0 l) as [r l'] eqn:E. cbn [fst snd].
  destruct r; [|exact I]. apply (to_brace_aux_strict _ _ _ _ _ _ _ _ E).
Qed.
Lemma brace_eof e l : A l = 0%nat -> fst (continue_to_matching_brace e l) = None.
Proof.
  intro E. unfold continue_to_matching_brace. pose proof (next_eof l E) as He.
  destruct (l_after l); cbn [to_brace_aux]; destruct (next l) as [r l1]; cbn [fst] in He; subst r; reflexivity.
Qed.

Lemma peek_ahead_eof n l : A l = 0%nat -> fst (peek_ahead n l) = [].
Proof. intro E. unfold peek_ahead. cbn [fst]. unfold A in E. apply length_zero_iff_nil in E. rewrite E. destruct n; reflexivity. Qed.

Lemma quote_eof typ cap l : A l = 0%nat -> fst (continue_to_matching_quote typ cap l) = None.
Proof. intro E. unfold continue_to_matching_quote. pose proof (peek_eof l E) as He. destruct (peek l) as [q l0]. cbn [fst] in He. subst q. reflexivity. Qed.

Lemma quote_strict typ cap l c l' :
  continue_to_matching_quote typ cap l = (Some c, l') -> N.eqb c 96 || N.eqb c 34 = true -> (A l' < A l)%nat.
Proof.
  unfold continue_to_matching_quote. pose proof (peek_A l) as [Hp1 Hp2]. pose proof (peek_eof l) as Hpe.
  destruct (peek l) as [q l0]. cbn [fst snd] in *.
  destruct q as [qc|]; [|discriminate].
  assert (Hpos : (0 < A l)%nat) by (destruct (Nat.eq_dec (A l) 0) as [E|N]; [specialize (Hpe E); discriminate|lia]).
  destruct (N.eqb qc 96 || N.eqb qc 34) eqn:Eq; [|intros K Hc; injection K as <- <-; congruence].
  set (l1 := if cap then snd (next l0) else snd (skip l0)).
  assert (H1 : (A l1 < A l)%nat).
  { subst l1. destruct cap; [pose proof (next_strict l0) as Hs|pose proof (skip_strict l0) as Hs]; rewrite Hp1 in Hs; specialize (Hs Hpos); lia. }
  pose proof (to_quote_aux_RD (l_after l1) qc false l1) as H2. destruct (to_quote_aux (l_after l1) qc false l1) as [r l2]. cbn [snd] in *.
  unfold RD in H2. destruct r; [|discriminate]. intros K _. destruct cap; injection K as _ <-.
  - destruct (emit_RK typ l2) as [Ha _]. rewrite Ha. lia.
  - pose proof (backup_RW l2) as Hb. destruct (emit_RK typ (backup l2)) as [Ha Hq]. pose proof (skip_RD (emit typ (backup l2))) as Hs.
    unfold RD, RW in *. lia.
Qed.

(** [skip_run] stops before a rune that is not in the set (or at the end of input) *)
Lemma skip_run_aux_stops set : forall fuel l, (A l <= List.length fuel)%nat ->
  match hd_rune (skip_run_aux fuel set l) with Some c => mem_byte c set = false | None => True end.
Proof.
  induction fuel as [|x f IH]; intros l Hl.
  - assert (E : A l = 0%nat) by (cbn in Hl; lia). cbn [skip_run_aux].
    pose proof (next_eof l E) as He. destruct (peek_reader l) as (Hq1 & _ & _). unfold peek in Hq1.
    destruct (next l) as [r l1]. cbn [fst snd] in *. subst r. cbn [in_set].
    unfold hd_rune. rewrite Hq1. unfold A in E. apply length_zero_iff_nil in E. rewrite E. exact I.
  - cbn [skip_run_aux]. pose proof (next_fst l) as Hf. pose proof (next_strict l) as Hst.
    destruct (peek_reader l) as (Hq1 & _ & Hq3). unfold peek in Hq1, Hq3.
    destruct (next l) as [r l1]. cbn [fst snd] in *.
    destruct (in_set set r) eqn:Ei.
    + destruct r as [c|]; [|discriminate]. apply IH. destruct (drop_width_RK l1) as [Ha _]. rewrite Ha.
      assert (Hp : (0 < A l)%nat) by (apply (hd_pos l c); symmetry; exact Hf). specialize (Hst Hp). cbn [List.length] in Hl. lia.
    + unfold hd_rune at 1. rewrite Hq1. fold (hd_rune l). rewrite <- Hf. destruct r; [exact Ei|exact I].
Qed.
Lemma skip_run_stops set l : match hd_rune (skip_run set l) with Some c => mem_byte c set = false | None => True end.
Proof. apply skip_run_aux_stops. unfold A. lia. Qed.

Lemma quote_strict' typ cap l :
  match fst (continue_to_matching_quote typ cap l) with
  | Some c => N.eqb c 96 || N.eqb c 34 = true -> (A (snd (continue_to_matching_quote typ cap l)) < A l)%nat
  | None => True
  end.
Proof.
  destruct (continue_to_matching_quote typ cap l) as [r l'] eqn:E. cbn [fst snd]. destruct r as [c|]; [|exact I].
  intro Hc. exact (quote_strict typ cap l c l' E Hc).
Qed.

Lemma hd_none_A l : hd_rune l = None -> A l = 0%nat.
Proof.
  unfold hd_rune, A. destruct (l_after l) as [|b t] eqn:E; [reflexivity|]. intro H.
  exfalso. apply (decode_nonempty (b :: t)); [discriminate|]. destruct (decode_rune (b :: t)); [discriminate|reflexivity].
Qed.

Lemma haml_identifier_strict typ l : (0 < A l -> A (snd (haml_identifier typ l)) < A l)%nat.
Proof.
  intro Hp. unfold haml_identifier. pose proof (skip_strict l Hp) as H1. pose proof (accept_until_RD c_mayFollowIdentifier (snd (skip l))) as H2.
  set (l2 := accept_until c_mayFollowIdentifier (snd (skip l))) in *. unfold RD in H2.
  destruct (current l2).
  - destruct (errorf_RK (toktype_name typ ++ lit " identifier expected") l2) as [Ha _]. rewrite Ha. lia.
  - cbn [snd]. destruct (emit_RK typ l2) as [Ha _]. rewrite Ha. lia.
Qed.

(** * ranks that also count the state calls that send tokens *)
Definition is_nl (c : N) : bool := N.eqb c 10 || N.eqb c 13.

Definition rt1 (st : lstate) (c : N) : nat :=
  match st with
  | SNil => 0 | SStopped => 1
  | SCommandCode => if N.eqb c 64 then 2 else 39
  | SFilterDynamicText _ _ => 3 | SFilterContent _ _ => 4
  | SGohtNewLine => if is_nl c then 4 else 40
  | SGohtLineEnd => 5
  | SDynamicText => 10 | STextContent => 11 | STextStart => 12
  | SAttributesEnd => 22 | SAttributeEnd => 23 | SAttributeStaticValue | SAttributeDynamicValue => 24 | SAttributeValue => 25
  | SAttributeOperator | SAttributeCommand => 26 | SAttributeName | SAttributeCommandStart => 27 | SAttribute => 28
  | SId | SClass | SObjectReference | SAttributesStart | SUnescaped | SSilentScript | SOutputCode | SVoidTag | SWhitespaceRemoval => 29
  | SGohtContent | SGohtContentEnd => 30
  | STag | SDoctype | SComment | SFilterStart => 34
  | SGohtContentStart => 35 | SGohtIndent => 36 | SGohtLineStart => 37
  | SFilterIndent _ _ => 38 | SFilterLineStart _ _ | SIgnoreIndented _ => 39
  | SGoLineEnd => 41 | SGohtStart | SGoCode => 42 | SPackage | SImportStart | STemplate => 43 | SGoLineStart => 44 | SImports => 45
  end.

Definition rt0 (st : lstate) : nat :=
  match st with
  | SNil => 0 | SStopped => 1
  | SGohtLineEnd | SGoLineEnd | SGohtLineStart | SFilterLineStart _ _ | SIgnoreIndented _ | SImports | SObjectReference
  | SWhitespaceRemoval | SAttributeEnd | SAttributeName | SAttributeCommand | SAttributeOperator | SAttributeValue
  | SAttributeStaticValue | SAttributeDynamicValue => 2
  | SGoLineStart | SGoCode | SGohtContent | SGohtContentEnd | SGohtContentStart | STextContent | SFilterContent _ _
  | SGohtNewLine | SAttribute | SAttributeCommandStart => 3
  | SUnescaped => 5
  | _ => 4
  end.

Definition rank2 (st : lstate) (l : lexst) : nat :=
  match hd_rune l with Some c => rt1 st c | None => rt0 st end.

Definition progress2 (st : lstate) (l : lexst) : Prop :=
  (A (snd (step st l)) <= A l)%nat /\
  ((A (snd (step st l)) < A l)%nat \/ (rank2 (fst (step st l)) (snd (step st l)) < rank2 st l)%nat).

(** the shape in which it is proved: the first rune of the new cursor matters only through "input left or not" *)
Definition progress2' (st : lstate) (l : lexst) : Prop :=
  (A (snd (step st l)) <= A l)%nat /\
  ((A (snd (step st l)) < A l)%nat \/
   match hd_rune l with
   | None => (rt0 (fst (step st l)) < rt0 st)%nat
   | Some c => forall c', (rt1 (fst (step st l)) c' < rt1 st c)%nat
   end).

Lemma progress2'_ok st l : progress2' st l -> progress2 st l.
Proof.
  unfold progress2', progress2, rank2. intros [H1 H2]. split; [exact H1|]. destruct H2 as [H2|H2]; [left; exact H2|].
  destruct (Nat.eq_dec (A (snd (step st l))) (A l)) as [E|N]; [|left; lia]. right.
  destruct (hd_rune l) as [c|] eqn:Hh.
  - destruct (hd_rune (snd (step st l))) as [c'|] eqn:Hh'; [apply H2|]. apply hd_none_A in Hh'. pose proof (hd_pos l c Hh). lia.
  - apply hd_none_A in Hh. destruct (hd_rune (snd (step st l))) as [c'|] eqn:Hh'; [|exact H2]. pose proof (hd_pos _ c' Hh'). lia.
Qed.

Ltac facts2 t :=
  lazymatch t with
  | snd (next ?x) => facts2 x; pose proof (next_RD x); pose proof (next_strict x)
  | snd (skip ?x) => facts2 x; pose proof (skip_RD x); pose proof (skip_strict x)
  | backup ?x => facts2 x; pose proof (backup_RW x)
  | ignore ?x => facts2 x; pose proof (ignore_RK x)
  | with_indent ?x ?i => facts2 x; pose proof (with_indent_RK x i)
  | emit ?t ?x => facts2 x; pose proof (emit_RK t x)
  | accept_run ?v ?x => facts2 x; pose proof (accept_run_RD v x)
  | accept_until ?v ?x => facts2 x; pose proof (accept_until_RD v x)
  | skip_run ?v ?x => facts2 x; pose proof (skip_run_RD v x)
  | skip_until ?v ?x => facts2 x; pose proof (skip_until_RD v x)
  | skip_ahead ?n ?x => facts2 x; pose proof (skip_ahead_RW n x)
  | _ => idtac
  end.

Ltac tot_case :=
  repeat first
  [ match goal with
    | |- context [has_prefix ?a ?b] => destruct (has_prefix a b) eqn:?
    | |- context [match current ?x with _ => _ end] => destruct (current x) eqn:?
    end
  | match goal with
    | |- context [match peek ?x with _ => _ end] =>
        facts2 x; pose proof (peek_A x); pose proof (peek_eof x); pose proof (peek_reader x); destruct (peek x) as [? ?]; cbn [fst snd] in *
    | |- context [match next ?x with _ => _ end] =>
        facts2 x; pose proof (next_RD x); pose proof (next_strict x); pose proof (next_eof x); destruct (next x) as [? ?]; cbn [fst snd] in *
    | |- context [match skip ?x with _ => _ end] =>
        facts2 x; pose proof (skip_RD x); pose proof (skip_strict x); pose proof (skip_eof x); destruct (skip x) as [? ?]; cbn [fst snd] in *
    | |- context [match peek_ahead ?n ?x with _ => _ end] =>
        facts2 x; pose proof (peek_ahead_A n x); pose proof (peek_ahead_eof n x); pose proof (eq_refl : l_after (snd (peek_ahead n x)) = l_after x);
        destruct (peek_ahead n x) as [? ?]; cbn [fst snd] in *
    | |- context [match continue_to_matching_brace ?e ?x with _ => _ end] =>
        facts2 x; pose proof (brace_RD e x); pose proof (brace_strict e x); pose proof (brace_eof e x);
        destruct (continue_to_matching_brace e x) as [? ?]; cbn [fst snd] in *
    | |- context [match goht_start_loop ?f ?x with _ => _ end] =>
        facts2 x; pose proof (goht_start_loop_RD f x); destruct (goht_start_loop f x) as [? ?]; cbn [fst snd] in *
    | |- context [match continue_to_matching_quote ?t ?c ?x with _ => _ end] =>
        facts2 x; pose proof (quote_RD t c x); pose proof (quote_strict' t c x); pose proof (quote_eof t c x);
        destruct (continue_to_matching_quote t c x) as [? ?]; cbn [fst snd] in *
    | |- context [haml_identifier ?t ?x] =>
        facts2 x; pose proof (haml_identifier_RD t x); pose proof (haml_identifier_strict t x);
        assert (fst (haml_identifier t x) = SStopped \/ fst (haml_identifier t x) = SGohtContent)
          by (unfold haml_identifier, errorf; destruct (current _); [destruct (position _) as [[? ?] ?]; left|right]; reflexivity);
        destruct (haml_identifier t x) as [? ?]; cbn [fst snd] in *
    | |- context [errorf ?m ?x] =>
        facts2 x; pose proof (errorf_RK m x);
        assert (fst (errorf m x) = SStopped) by (unfold errorf; destruct (position x) as [[? ?] ?]; reflexivity);
        destruct (errorf m x) as [? ?]; cbn [fst snd] in *
    end
  | match goal with
    | |- context [if ?c then _ else _] => destruct c eqn:?
    | |- context [match ?x with _ => _ end] => destruct x eqn:?
    end ].

Ltac split_eof2 :=
  repeat match goal with
  | H : A ?x = 0%nat -> ?r = None |- _ =>
      let E := fresh "e" in
      destruct (Nat.eq_dec (A x) 0) as [E|?ne];
      [ let K := fresh "K" in pose proof (H E) as K; clear H; first [subst r | discriminate K | idtac] | clear H ]
  | H : A ?x = 0%nat -> ?r = [] |- _ =>
      let E := fresh "e" in
      destruct (Nat.eq_dec (A x) 0) as [E|?ne];
      [ let K := fresh "K" in pose proof (H E) as K; clear H; first [subst r | discriminate K | idtac] | clear H ]
  end.

Ltac use_quote2 :=
  repeat match goal with
  | H : N.eqb ?n 96 || N.eqb ?n 34 = true -> _ |- _ =>
      first [ let K := fresh "K" in
              assert (K : N.eqb n 96 || N.eqb n 34 = true)
                by (match goal with Hq : negb (N.eqb n 34) && negb (N.eqb n 96) = false |- _ => revert Hq end;
                    destruct (N.eqb n 34), (N.eqb n 96); cbn; congruence);
              specialize (H K)
            | clear H ]
  end.

Ltac tot_solve1 :=
  match goal with |- (A ?t <= _)%nat /\ _ => facts2 t end;
  unfold RD, RW, RK in *;
  split; [lia | first [ left; lia | right; first [intro; cbn [rt0 rt1 fst snd]; lia | cbn [rt0 rt1 fst snd]; lia] ] ].
Ltac tot_solve :=
  cbn [fst snd];
  repeat match goal with H : _ = SStopped \/ _ |- _ => destruct H end; subst;
  tot_solve1.

Ltac tot_group :=
  match goal with l : lexst |- _ =>
    unfold progress2'; destruct (hd_rune l) as [c0|] eqn:Hh;
    [pose proof (hd_pos l c0 Hh) as Hnz | pose proof (hd_none_A l Hh) as Hz];
    unfold step; cbv zeta;
    tot_case;
    try solve [tot_solve];
    split_eof2; cbn [rune_is in_set] in *; try congruence;
    try solve [tot_solve];
    use_quote2;
    try solve [tot_solve]
  end.

(** * the states whose progress depends on the first rune *)
Lemma emit_after t l : l_after (emit t l) = l_after l.
Proof. unfold emit. destruct (position l) as [[line col] bad]. destruct bad; reflexivity. Qed.
Lemma hd_emit t l : hd_rune (emit t l) = hd_rune l.
Proof. unfold hd_rune. rewrite emit_after. reflexivity. Qed.

Lemma is_nl_mem c : is_nl c = mem_byte c [10; 13].
Proof. unfold is_nl. cbn [mem_byte]. rewrite Bool.orb_false_r. reflexivity. Qed.

Lemma newline_progress2 l : progress2 SGohtNewLine l.
Proof.
  unfold progress2, step. cbv zeta. cbn [fst snd].
  pose proof (accept_run_RD [10; 13] l) as H1. destruct (emit_RK TNewLine (accept_run [10; 13] l)) as [Ha _]. rewrite Ha. unfold RD in H1.
  split; [lia|]. unfold rank2 at 2. destruct (hd_rune l) as [c|] eqn:Hh.
  - destruct (is_nl c) eqn:En.
    + left. apply (accept_run_strict [10; 13] l c Hh). rewrite <- is_nl_mem. exact En.
    + destruct (Nat.eq_dec (A (accept_run [10; 13] l)) (A l)) as [E|N]; [|left; lia]. right.
      unfold rank2. rewrite hd_emit. cbn [rt1]. rewrite En.
      destruct (hd_rune (accept_run [10; 13] l)) as [c'|] eqn:Hh'; [cbn; lia|]. apply hd_none_A in Hh'. pose proof (hd_pos l c Hh). lia.
  - right. pose proof (hd_none_A l Hh) as Hz. unfold rank2. rewrite hd_emit.
    destruct (hd_rune (accept_run [10; 13] l)) as [c'|] eqn:Hh'; [pose proof (hd_pos _ c' Hh'); lia|cbn; lia].
Qed.

Lemma line_end_progress2 l : progress2 SGohtLineEnd l.
Proof.
  unfold progress2, step. cbv zeta.
  pose proof (skip_run_RD (lit " " ++ [9]) l) as H1. set (l1 := skip_run (lit " " ++ [9]) l) in *. unfold RD in H1.
  destruct (peek_reader l1) as (Hp1 & _ & Hp3). pose proof (peek_A l1) as [Hp4 _]. pose proof (peek_eof l1) as Hpe.
  destruct (peek l1) as [r l2]. cbn [fst snd] in *.
  destruct r as [c|].
  - assert (Hpos1 : (0 < A l1)%nat) by (destruct (Nat.eq_dec (A l1) 0) as [E|N]; [specialize (Hpe E); discriminate|lia]).
    assert (Hh2 : hd_rune l2 = Some c) by (unfold hd_rune in *; rewrite Hp1; symmetry; exact Hp3).
    destruct (N.eqb c 10 || N.eqb c 13) eqn:En; cbn [fst snd].
    + split; [lia|]. destruct (Nat.eq_dec (A l2) (A l)) as [E|N]; [|left; lia]. right.
      unfold rank2. rewrite Hh2. cbn [rt1]. unfold is_nl. rewrite En.
      destruct (hd_rune l) as [c0|] eqn:Hh; [cbn; lia|]. apply hd_none_A in Hh. lia.
    + destruct (peek_A l2) as [Hq4 _]. pose proof (errorf_RK (err_unexpected_char (fst (peek l2))) (snd (peek l2))) as [He _].
      assert (Hs : fst (errorf (err_unexpected_char (fst (peek l2))) (snd (peek l2))) = SStopped)
        by (unfold errorf; destruct (position _) as [[? ?] ?]; reflexivity).
      destruct (peek l2) as [r3 l3]. cbn [fst snd] in *. destruct (errorf (err_unexpected_char r3) l3) as [st4 l4]. cbn [fst snd] in *. subst st4.
      split; [lia|]. destruct (Nat.eq_dec (A l4) (A l)) as [E|N]; [|left; lia]. right.
      unfold rank2. destruct (hd_rune l) as [c0|] eqn:Hh; [|apply hd_none_A in Hh; lia].
      destruct (hd_rune l4); cbn; lia.
  - cbn [fst snd]. destruct (emit_RK TEOF l2) as [Ha _]. rewrite Ha. split; [lia|].
    destruct (Nat.eq_dec (A l2) (A l)) as [E|N]; [|left; lia]. right. unfold rank2.
    destruct (hd_rune (emit TEOF l2)); destruct (hd_rune l); cbn; lia.
Qed.

(** a helper: from "the reader did not grow and (it shrank or the target's rank is lower for the target's first rune)" *)
Lemma progress2_intro st l st' l' : step st l = (st', l') -> (A l' <= A l)%nat ->
  ((A l' < A l)%nat \/ (A l' = A l -> rank2 st' l' < rank2 st l)%nat) -> progress2 st l.
Proof.
  intros E H1 H2. unfold progress2. rewrite E. cbn [fst snd]. split; [exact H1|].
  destruct H2 as [H2|H2]; [left; exact H2|]. destruct (Nat.eq_dec (A l') (A l)) as [Eq|N]; [right; apply H2; exact Eq|left; lia].
Qed.

Lemma output_code_progress2 l : progress2 SOutputCode l.
Proof.
  unfold progress2, step. cbv zeta.
  pose proof (skip_run_RD (lit "= " ++ [9]) l) as H1. set (l1 := skip_run (lit "= " ++ [9]) l) in *. unfold RD in H1.
  destruct (peek_reader l1) as (Hp1 & _ & Hp3). pose proof (peek_A l1) as [Hp4 _]. pose proof (peek_eof l1) as Hpe.
  destruct (peek l1) as [r l2]. cbn [fst snd] in *.
  destruct (rune_is r 64) eqn:Er; cbn [fst snd].
  - split; [lia|]. destruct (Nat.eq_dec (A l2) (A l)) as [E|N]; [|left; lia]. right.
    destruct r as [c|]; [|discriminate]. cbn [rune_is] in Er. apply N.eqb_eq in Er. subst c.
    assert (Hh2 : hd_rune l2 = Some 64) by (unfold hd_rune in *; rewrite Hp1; symmetry; exact Hp3).
    unfold rank2. rewrite Hh2. cbn [rt1 N.eqb Pos.eqb].
    destruct (hd_rune l) as [c0|] eqn:Hh; [cbn; lia|]. apply hd_none_A in Hh.
    assert (Hz1 : A l1 = 0%nat) by lia. specialize (Hpe Hz1). discriminate.
  - pose proof (accept_until_RD [10; 13] l2) as H3. destruct (emit_RK TScript (accept_until [10; 13] l2)) as [Ha _]. rewrite Ha. unfold RD in H3.
    split; [lia|]. destruct (Nat.eq_dec (A (accept_until [10; 13] l2)) (A l)) as [E|N]; [|left; lia]. right.
    unfold rank2. destruct (hd_rune l) as [c0|] eqn:Hh; destruct (hd_rune (emit TScript (accept_until [10; 13] l2))) as [c'|] eqn:Hh'; cbn; try lia.
    apply hd_none_A in Hh. pose proof (hd_pos _ c' Hh') as Hp'. rewrite Ha in Hp'. lia.
Qed.

Ltac tot_solve_at E64 :=
  cbn [fst snd];
  repeat match goal with H : _ = SStopped \/ _ |- _ => destruct H end; subst;
  match goal with |- (A ?t <= _)%nat /\ _ => facts2 t end;
  unfold RD, RW, RK in *;
  split; [lia | first [ left; lia | right; first [intro; cbn [rt0 rt1 fst snd]; rewrite ?E64; lia | cbn [rt0 rt1 fst snd]; rewrite ?E64; lia] ] ].

Lemma command_code_progress2 l : progress2 SCommandCode l.
Proof.
  apply progress2'_ok. unfold progress2'. destruct (hd_rune l) as [c0|] eqn:Hh;
    [pose proof (hd_pos l c0 Hh) as Hnz | pose proof (hd_none_A l Hh) as Hz].
  - destruct (N.eqb c0 64) eqn:E64.
    + (* the @ is skipped: whatever follows, the reader has shrunk *)
      apply N.eqb_eq in E64. subst c0.
      pose proof (skip_run_strict (lit "@") l 64 Hh eq_refl) as Hs.
      unfold step; cbv zeta. tot_case.
      all: cbn [fst snd]; repeat match goal with H : _ = SStopped \/ _ |- _ => destruct H end; subst.
      all: match goal with |- (A ?t <= _)%nat /\ _ => facts2 t end; unfold RD, RW, RK in *; (split; [lia|left; lia]).
    + unfold step; cbv zeta. tot_case. all: try solve [tot_solve_at E64].
      all: split_eof2; cbn [rune_is in_set] in *; try congruence. all: try solve [tot_solve_at E64].
  - unfold step; cbv zeta. tot_case. all: try solve [tot_solve].
    all: split_eof2; cbn [rune_is in_set] in *; try congruence. all: try solve [tot_solve].
Qed.

Lemma imports_progress2' l : progress2' SImports l.
Proof.
  tot_group.
  match goal with
  | Hp : l_after ?l0 = l_after (skip_run ws4 l) /\ _ /\ Some ?c = hd_rune (skip_run ws4 l) |- _ =>
      destruct Hp as (Hp1 & _ & Hp3);
      pose proof (skip_run_stops ws4 l) as Hst; rewrite <- Hp3 in Hst;
      assert (Hm : mem_byte c [10; 13] = false)
        by (revert Hst; unfold ws4; change (lit " ") with [32]; cbn [app mem_byte]; rewrite !Bool.orb_false_iff; tauto);
      assert (Hh0 : hd_rune l0 = Some c) by (unfold hd_rune in *; rewrite Hp1; symmetry; exact Hp3);
      pose proof (accept_until_strict [10; 13] l0 c Hh0 Hm) as Hs;
      pose proof (skip_run_RD ws4 l) as Hr; destruct (emit_RK TImport (accept_until [10; 13] l0)) as [Ha _]
  end.
  cbn [fst snd]. unfold RD in *. rewrite Ha. split; [lia|left; lia].
Qed.

Lemma import_start_progress2' l : progress2' SImportStart l.
Proof.
  tot_group.
  match goal with
  | |- context [skip_run [10; 13] (emit TImport (accept_until [10; 13] ?l0))] =>
      pose proof (accept_until_stops [10; 13] l0) as Hst;
      pose proof (accept_until_RD [10; 13] l0) as Hr1;
      destruct (emit_RK TImport (accept_until [10; 13] l0)) as [Ha _];
      pose proof (skip_run_RD [10; 13] (emit TImport (accept_until [10; 13] l0))) as Hr2;
      pose proof (hd_emit TImport (accept_until [10; 13] l0)) as Hhe;
      destruct (hd_rune (accept_until [10; 13] l0)) as [c|] eqn:Hh4;
      [ pose proof (skip_run_strict [10; 13] (emit TImport (accept_until [10; 13] l0)) c Hhe Hst) as Hs
      | apply hd_none_A in Hh4 ]
  end.
  all: cbn [fst snd]; match goal with |- (A ?t <= _)%nat /\ _ => facts2 t end; unfold RD, RW, RK in *; (split; [lia|left; lia]).
Qed.

Lemma skip_line_strict l : (0 < A l)%nat -> (A (skip_run [10%N; 13%N] (skip_until [10%N; 13%N] l)) < A l)%nat.
Proof.
  intro Hp. destruct (hd_rune_some l ltac:(lia)) as [c Hh].
  pose proof (skip_run_RD [10; 13] (skip_until [10; 13] l)) as Hr. unfold RD in Hr.
  destruct (mem_byte c [10; 13]) eqn:Hm.
  - rewrite (skip_until_stop [10; 13] l c Hh Hm). destruct (peek_reader l) as (Hq1 & _ & _).
    assert (Hh2 : hd_rune (snd (peek l)) = Some c) by (unfold hd_rune in *; rewrite Hq1; exact Hh).
    pose proof (skip_run_strict [10; 13] (snd (peek l)) c Hh2 Hm) as Hs. destruct (peek_A l) as [Ha _]. lia.
  - pose proof (skip_until_strict [10; 13] l c Hh Hm) as Hs. lia.
Qed.

Lemma filter_start_progress2' l : progress2' SFilterStart l.
Proof.
  tot_group.
  all: match goal with
  | |- context [skip_run [10; 13] (skip_until [10; 13] ?l3)] =>
      pose proof (skip_line_strict l3) as Hs; pose proof (skip_run_RD [10; 13] (skip_until [10; 13] l3)) as Hr1;
      pose proof (skip_until_RD [10; 13] l3) as Hr2
  end.
  all: cbn [fst snd]; match goal with |- (A ?t <= _)%nat /\ _ => facts2 t end; unfold RD, RW, RK in *; (split; [lia|left; lia]).
Qed.

Lemma ignore_indented_progress2' n l : progress2' (SIgnoreIndented n) l.
Proof.
  tot_group.
  match goal with
    | Hp : l_after ?l0 = l_after l /\ _ /\ Some ?c = hd_rune l, Ha : l_after ?l1 = l_after ?l0,
      Hc : (?c =? 10) || (?c =? 13) = false |- _ =>
        destruct Hp as (Hp1 & _ & Hp3);
        assert (Hh1 : hd_rune l1 = Some c) by (unfold hd_rune in *; rewrite Ha, Hp1; symmetry; exact Hp3);
        assert (Hm : mem_byte c [10; 13] = false) by (cbn [mem_byte]; rewrite Bool.orb_false_r; exact Hc);
        pose proof (skip_until_strict [10; 13] l1 c Hh1 Hm) as Hs;
        assert (Ha1 : A l1 = A l) by (unfold A; rewrite Ha, Hp1; reflexivity)
  end.
  cbn [fst snd]. split; [lia|left; lia].
Qed.

(** a line of a filter: text was taken, or the line ends here and its line break is taken *)
Lemma filter_line_strict l r l0 : A l <> 0%nat -> peek (accept_until (lit "#" ++ [10; 13]) l) = (r, l0) -> rune_is r 35 = false ->
  (A (accept_run [10%N; 13%N] l0) < A l)%nat.
Proof.
  intros Hnz Hpk Er. set (stopset := lit "#" ++ [10; 13]) in *. set (l1 := accept_until stopset l) in *.
  pose proof (accept_until_RD stopset l) as H1. fold l1 in H1. unfold RD in H1.
  destruct (peek_reader l1) as (Hp1 & _ & Hp3). pose proof (peek_A l1) as [Hp4 _]. rewrite Hpk in *. cbn [fst snd] in *.
  pose proof (accept_run_RD [10; 13] l0) as H3. unfold RD in H3.
  destruct (hd_rune_some l Hnz) as [c Hh]. destruct (mem_byte c stopset) eqn:Hm.
  - pose proof (accept_until_stop stopset l c Hh Hm) as Hstop. fold l1 in Hstop.
    destruct (peek_reader l) as (Hq1 & _ & Hq3).
    assert (Ha2 : l_after l0 = l_after l) by (rewrite Hp1, Hstop; exact Hq1).
    assert (Hh2 : hd_rune l0 = Some c) by (unfold hd_rune in *; rewrite Ha2; exact Hh).
    assert (Hr : r = Some c) by (rewrite Hp3, Hstop; unfold hd_rune; rewrite Hq1; exact Hh).
    rewrite Hr in Er. cbn [rune_is] in Er.
    assert (Hv : mem_byte c [10; 13] = true).
    { revert Hm. unfold stopset. change (lit "#") with [35]. cbn [app mem_byte]. rewrite Er. cbn [orb]. exact (fun H => H). }
    pose proof (accept_run_strict [10; 13] l0 c Hh2 Hv) as Hs.
    assert (Ha1 : A l0 = A l) by (unfold A; rewrite Ha2; reflexivity). lia.
  - pose proof (accept_until_strict stopset l c Hh Hm) as Hs. fold l1 in Hs. lia.
Qed.

Lemma filter_content_progress2' n k l : progress2' (SFilterContent n k) l.
Proof.
  unfold progress2'. destruct (hd_rune l) as [c0|] eqn:Hh; [pose proof (hd_pos l c0 Hh) as Hnz | pose proof (hd_none_A l Hh) as Hz].
  - unfold step. cbv zeta.
    pose proof (filter_line_strict l) as Hfl.
    pose proof (accept_until_RD (lit "#" ++ [10; 13]) l) as H1. pose proof (peek_A (accept_until (lit "#" ++ [10; 13]) l)) as [Hp4 _].
    destruct (peek (accept_until (lit "#" ++ [10; 13]) l)) as [r l0]. cbn [fst snd] in *. unfold RD in H1.
    destruct (rune_is r 35) eqn:Er; cbn [fst snd].
    + split; [lia|]. right. intro c'. cbn [rt1]. lia.
    + specialize (Hfl r l0 ltac:(lia) eq_refl Er).
      destruct (current (accept_run [10; 13] l0)); cbn [fst snd]; [|destruct (emit_RK k (accept_run [10; 13] l0)) as [Ha _]; rewrite Ha]; (split; [lia|left; lia]).
  - unfold step; cbv zeta. tot_case. all: try solve [tot_solve].
    all: split_eof2; cbn [rune_is in_set] in *; try congruence. all: try solve [tot_solve].
Qed.

(** * every state call, sending tokens or not, moves down in (bytes left, rank) *)
Theorem step_progress2 st l : st <> SNil -> progress2 st l.
Proof.
  intro Hst. destruct st; try congruence; clear Hst;
    first [ apply newline_progress2 | apply line_end_progress2 | apply output_code_progress2 | apply command_code_progress2
          | apply progress2'_ok;
            first [ apply imports_progress2' | apply import_start_progress2' | apply filter_start_progress2'
                  | apply ignore_indented_progress2' | apply filter_content_progress2' | idtac ] ].
  all: tot_group.
Qed.

