(** The loops of the lexer model run on fuel (the bytes left in the reader); when it is used up they return what
    they have, which looks like a normal result.  Here: that never happens.  Each loop, started with at least as
    much fuel as the reader holds bytes, returns the same with any amount of additional fuel; the lexer starts
    every loop with exactly the reader's bytes as fuel. *)
From GV Require Import Compiler.Lexer Proofs.LexProofs Proofs.LexProgressProofs.
From Coq Require Import Lia.
Open Scope N_scope.

Lemma next_some_pos l c : fst (next l) = Some c -> (0 < A l)%nat.
Proof. intro H. destruct (Nat.eq_dec (A l) 0) as [E|N]; [rewrite (next_eof l E) in H; discriminate|lia]. Qed.

Ltac fuel_step l :=
  pose proof (next_strict l) as Hst; pose proof (next_eof l) as He; pose proof (@next_some_pos l) as Hsp;
  destruct (next l) as [r l1]; cbn [fst snd] in *.

Lemma accept_run_aux_fuel valid extra : forall fuel l, (A l <= List.length fuel)%nat ->
  accept_run_aux (fuel ++ extra) valid l = accept_run_aux fuel valid l.
Proof.
  induction fuel as [|x f IH]; intros l Hl.
  - cbn [app]. assert (E : A l = 0%nat) by (cbn in Hl; lia).
    destruct extra; cbn [accept_run_aux]; fuel_step l; rewrite (He E); reflexivity.
  - cbn [app accept_run_aux]. fuel_step l. destruct r as [c|]; [|reflexivity].
    destruct (in_set valid (Some c)); [|reflexivity]. apply IH. specialize (Hsp c eq_refl). specialize (Hst Hsp). cbn [List.length] in Hl. lia.
Qed.

Lemma accept_until_aux_fuel inv extra : forall fuel l, (A l <= List.length fuel)%nat ->
  accept_until_aux (fuel ++ extra) inv l = accept_until_aux fuel inv l.
Proof.
  induction fuel as [|x f IH]; intros l Hl.
  - cbn [app]. assert (E : A l = 0%nat) by (cbn in Hl; lia).
    destruct extra; cbn [accept_until_aux]; fuel_step l; rewrite (He E); reflexivity.
  - cbn [app accept_until_aux]. fuel_step l. destruct r as [c|]; [|reflexivity].
    destruct (in_set inv (Some c)); [reflexivity|]. apply IH. specialize (Hsp c eq_refl). specialize (Hst Hsp). cbn [List.length] in Hl. lia.
Qed.

Lemma skip_run_aux_fuel set extra : forall fuel l, (A l <= List.length fuel)%nat ->
  skip_run_aux (fuel ++ extra) set l = skip_run_aux fuel set l.
Proof.
  induction fuel as [|x f IH]; intros l Hl.
  - cbn [app]. assert (E : A l = 0%nat) by (cbn in Hl; lia).
    destruct extra; cbn [skip_run_aux]; fuel_step l; rewrite (He E); reflexivity.
  - cbn [app skip_run_aux]. fuel_step l. destruct r as [c|]; [|reflexivity].
    destruct (in_set set (Some c)); [|reflexivity]. apply IH. destruct (drop_width_RK l1) as [Ha _]. rewrite Ha.
    specialize (Hsp c eq_refl). specialize (Hst Hsp). cbn [List.length] in Hl. lia.
Qed.

Lemma skip_until_aux_fuel stop extra : forall fuel l, (A l <= List.length fuel)%nat ->
  skip_until_aux (fuel ++ extra) stop l = skip_until_aux fuel stop l.
Proof.
  induction fuel as [|x f IH]; intros l Hl.
  - cbn [app]. assert (E : A l = 0%nat) by (cbn in Hl; lia).
    destruct extra; cbn [skip_until_aux]; fuel_step l; rewrite (He E); reflexivity.
  - cbn [app skip_until_aux]. fuel_step l. destruct r as [c|]; [|reflexivity].
    destruct (in_set stop (Some c)); [reflexivity|]. apply IH. destruct (drop_width_RK l1) as [Ha _]. rewrite Ha.
    specialize (Hsp c eq_refl). specialize (Hst Hsp). cbn [List.length] in Hl. lia.
Qed.

Lemma to_quote_aux_fuel q extra : forall fuel esc l, (A l <= List.length fuel)%nat ->
  to_quote_aux (fuel ++ extra) q esc l = to_quote_aux fuel q esc l.
Proof.
  induction fuel as [|x f IH]; intros esc l Hl.
  - cbn [app]. assert (E : A l = 0%nat) by (cbn in Hl; lia).
    destruct extra; cbn [to_quote_aux]; fuel_step l; rewrite (He E); reflexivity.
  - cbn [app to_quote_aux]. fuel_step l. destruct r as [c|]; [|reflexivity].
    destruct (N.eqb c q && negb esc); [reflexivity|]. apply IH. specialize (Hsp c eq_refl). specialize (Hst Hsp). cbn [List.length] in Hl. lia.
Qed.

Lemma to_brace_aux_fuel e extra : forall fuel esc inq qs l, (A l <= List.length fuel)%nat ->
  to_brace_aux (fuel ++ extra) e esc inq qs l = to_brace_aux fuel e esc inq qs l.
Proof.
  induction fuel as [|x f IH]; intros esc inq qs l Hl.
  - cbn [app]. assert (E : A l = 0%nat) by (cbn in Hl; lia).
    destruct extra; cbn [to_brace_aux]; fuel_step l; rewrite (He E); reflexivity.
  - cbn [app to_brace_aux]. fuel_step l. destruct r as [c|]; [|reflexivity].
    assert (Hl1 : (A l1 <= List.length f)%nat) by (specialize (Hsp c eq_refl); specialize (Hst Hsp); cbn [List.length] in Hl; lia).
    repeat match goal with |- context [if ?b then _ else _] => destruct b end; try reflexivity; apply IH; exact Hl1.
Qed.

Lemma goht_start_loop_fuel extra : forall fuel l, (A l <= List.length fuel)%nat ->
  goht_start_loop (fuel ++ extra) l = goht_start_loop fuel l.
Proof.
  induction fuel as [|x f IH]; intros l Hl.
  - cbn [app]. assert (E : A l = 0%nat) by (cbn in Hl; lia).
    pose proof (accept_until_RD (lit ")") l) as H1. unfold RD in H1.
    assert (E1 : A (accept_until (lit ")") l) = 0%nat) by lia.
    destruct extra; cbn [goht_start_loop]; destruct (Nat.eqb _ _); try reflexivity;
      fuel_step (accept_until (lit ")") l); rewrite (He E1); reflexivity.
  - cbn [app goht_start_loop]. destruct (Nat.eqb _ _); [reflexivity|].
    pose proof (accept_until_RD (lit ")") l) as H1. unfold RD in H1.
    fuel_step (accept_until (lit ")") l). destruct r as [c|]; [|reflexivity].
    apply IH. specialize (Hsp c eq_refl). specialize (Hst Hsp). cbn [List.length] in Hl. lia.
Qed.

Lemma all_space_aux_fuel extra : forall fuel s, (List.length s <= List.length fuel)%nat ->
  all_space_aux (fuel ++ extra) s = all_space_aux fuel s.
Proof.
  induction fuel as [|x f IH]; intros s Hl.
  - destruct s; [|cbn in Hl; lia]. destruct extra; reflexivity.
  - cbn [app all_space_aux]. destruct (decode_rune s) as [[r w]|] eqn:Hd; [|reflexivity].
    destruct (Nat.eqb w 1 && N.eqb r 65533); [reflexivity|]. destruct (is_unicode_space r); [|reflexivity].
    apply IH. pose proof (decode_width _ _ _ Hd) as Hw. rewrite skipn_length. cbn [List.length] in Hl. lia.
Qed.

(** the loops as the lexer calls them: more fuel changes nothing *)
Theorem loops_never_run_out extra l :
  (forall v, accept_run_aux (l_after l ++ extra) v l = accept_run v l) /\
  (forall v, accept_until_aux (l_after l ++ extra) v l = accept_until v l) /\
  (forall v, skip_run_aux (l_after l ++ extra) v l = skip_run v l) /\
  (forall v, skip_until_aux (l_after l ++ extra) v l = skip_until v l) /\
  (forall q esc, to_quote_aux (l_after l ++ extra) q esc l = to_quote_aux (l_after l) q esc l) /\
  (forall e, to_brace_aux (l_after l ++ extra) e false false 0 l = continue_to_matching_brace e l) /\
  goht_start_loop (l_after l ++ extra) l = goht_start_loop (l_after l) l /\
  (forall s, all_space_aux (s ++ extra) s = all_space s).
Proof.
  assert (H : (A l <= List.length (l_after l))%nat) by (unfold A; lia).
  repeat split; intros;
    first [apply accept_run_aux_fuel|apply accept_until_aux_fuel|apply skip_run_aux_fuel|apply skip_until_aux_fuel
          |apply to_quote_aux_fuel|apply to_brace_aux_fuel|apply goht_start_loop_fuel|apply all_space_aux_fuel]; first [exact H|apply Nat.le_refl].
Qed.
