(** The shape of every tree the parser accepts (C11, C15): the root holds Go-code runs and templates only, and
    its import list has no duplicates and none of goht's own imports.  Proved as an invariant of the parser's
    stack over the whole run, for every input. *)
From GV Require Import Compiler.Compile Proofs.EmitProofs Proofs.PassThroughProofs.
From Coq Require Import Lia.
Open Scope N_scope.

Definition item_kind (k : nkind) : bool := match k with KCode _ | KGoht _ => true | _ => false end.

Definition root_ok (f : frame) : Prop :=
  exists pkg user, f_kind f = KRoot pkg user /\ imports_wf user /\ Forall item (f_rev_children f).

(** top first: the root is the last frame and the only one of root kind; the frame above it is an item *)
Fixpoint wf (s : list frame) : Prop :=
  match s with
  | [] => False
  | f :: rest =>
    match rest with
    | [] => root_ok f
    | g :: _ => is_root (f_kind f) = false /\ (is_root (f_kind g) = true -> item_kind (f_kind f) = true) /\ wf rest
    end
  end.

Definition St (p : parser) : Prop := wf (p_stack p).

Lemma item_of_kind k ch : item_kind k = true -> item (Node k ch).
Proof. destruct k; try discriminate; intros _; exact I. Qed.

Lemma wf_pop p : St p -> St (pop p).
Proof.
  unfold St, pop. destruct (p_stack p) as [|f [|g rest]] eqn:E; intro H; rewrite ?E; try exact H.
  cbn [set_stack p_stack]. cbn [wf] in H. destruct H as (Hf & Hfg & Hrest).
  destruct rest as [|h rest'].
  - (* g is the root *)
    cbn [wf] in *. destruct Hrest as (pkg & user & Hk & Hw & Hc). exists pkg, user. cbn [f_kind f_rev_children].
    split; [exact Hk|]. split; [exact Hw|]. constructor; [|exact Hc].
    unfold finalize. apply item_of_kind. apply Hfg. rewrite Hk. reflexivity.
  - cbn [wf] in *. cbn [f_kind]. exact Hrest.
Qed.

Lemma wf_push p k : St p -> is_root k = false -> (is_root (top_kind p) = true -> item_kind k = true) -> St (add_node p k).
Proof.
  unfold St, add_node, top_kind. cbn [set_stack p_stack]. destruct (p_stack p) as [|g rest] eqn:E; intros H Hk Hi; [contradiction|].
  cbn [wf f_kind]. split; [exact Hk|]. split; [exact Hi|exact H].
Qed.

Lemma wf_add_child p n : St p -> is_root (top_kind p) = false -> St (add_child p n).
Proof.
  unfold St, add_child, top_kind. destruct (p_stack p) as [|f rest] eqn:E; intros H Hn; [rewrite E; exact H|].
  cbn [set_stack p_stack]. destruct rest as [|g rest'].
  - cbn [wf] in H. destruct H as (pkg & user & Hk & _). rewrite Hk in Hn. discriminate.
  - cbn [wf f_kind] in *. exact H.
Qed.

(** replacing the kind of the current node by one of the same sort *)
Lemma wf_set_kind_same p k : St p -> is_root (top_kind p) = false -> is_root k = false ->
  (item_kind (top_kind p) = true -> item_kind k = true) -> St (set_top_kind p k).
Proof.
  unfold St, set_top_kind, top_kind. destruct (p_stack p) as [|f rest] eqn:E; intros H Hn Hk Hi; [rewrite E; exact H|].
  cbn [set_stack p_stack]. destruct rest as [|g rest'].
  - cbn [wf] in H. destruct H as (pkg & user & Hr & _). rewrite Hr in Hn. discriminate.
  - cbn [wf f_kind] in *. destruct H as (Hf & Hfg & Hrest). split; [exact Hk|]. split; [|exact Hrest].
    intro Hg. apply Hi. apply Hfg. exact Hg.
Qed.

Lemma wf_set_kind_root p pkg user : St p -> is_root (top_kind p) = true -> imports_wf user -> St (set_top_kind p (KRoot pkg user)).
Proof.
  unfold St, set_top_kind, top_kind. destruct (p_stack p) as [|f rest] eqn:E; intros H Hr Hw; [contradiction|].
  cbn [set_stack p_stack]. destruct rest as [|g rest'].
  - cbn [wf] in *. destruct H as (pkg0 & user0 & Hk & _ & Hc). exists pkg, user. cbn [f_kind f_rev_children]. auto.
  - cbn [wf] in H. destruct H as (Hf & _). congruence.
Qed.

Lemma root_imports p pkg user : St p -> top_kind p = KRoot pkg user -> imports_wf user.
Proof.
  unfold St, top_kind. destruct (p_stack p) as [|f rest]; intros H Hk; [contradiction|].
  destruct rest as [|g rest'].
  - cbn [wf] in H. destruct H as (pkg0 & user0 & Hk0 & Hw & _). rewrite Hk in Hk0. injection Hk0 as -> ->. exact Hw.
  - cbn [wf] in H. destruct H as (Hf & _). rewrite Hk in Hf. discriminate.
Qed.

Lemma top_kind_set p k : St p -> top_kind (set_top_kind p k) = k.
Proof. unfold St, top_kind, set_top_kind. destruct (p_stack p) as [|f r]; [contradiction|]. reflexivity. Qed.

Section Shape.
Variable lexfuel : nat.

Definition okq {A} (Q : A -> Prop) (r : presult A) : Prop := match r with ROk a => Q a | _ => True end.

Lemma p_next_stack p t p1 : p_next lexfuel p = ROk (t, p1) -> p_stack p1 = p_stack p.
Proof. unfold p_next. destruct (next_token lexfuel (p_lexer p)); try discriminate. intro H. injection H as _ <-. reflexivity. Qed.

Lemma p_next_top p t p1 : p_next lexfuel p = ROk (t, p1) -> top_kind p1 = top_kind p.
Proof. intro H. unfold top_kind. rewrite (p_next_stack _ _ _ H). reflexivity. Qed.

Lemma p_next_St p t p1 : St p -> p_next lexfuel p = ROk (t, p1) -> St p1.
Proof. intros H Hn. unfold St. rewrite (p_next_stack _ _ _ Hn). exact H. Qed.

Lemma back_to_indent_St fuel i : forall p, St p -> okq St (back_to_indent fuel i p).
Proof.
  induction fuel as [|f IH]; intros p H; cbn [back_to_indent]; [exact H|].
  destruct (is_root (top_kind p)); [exact I|]. destruct (Z.leb _ i); [exact H|]. apply IH. apply wf_pop. exact H.
Qed.

Lemma back_to_type_St fuel t : forall p, St p -> okq St (back_to_type fuel t p).
Proof.
  induction fuel as [|f IH]; intros p H; cbn [back_to_type]; [exact H|].
  destruct (ntype_eqb _ t); [exact H|]. destruct (is_root (top_kind p)); [exact I|]. apply IH. apply wf_pop. exact H.
Qed.

Lemma back_to_parent_St p : St p -> okq St (back_to_parent p).
Proof. intro H. unfold back_to_parent. destruct (is_root (top_kind p)); [exact I|]. apply wf_pop. exact H. Qed.

(** after pulling one token the stack is the same *)
Lemma after_next_St {A} (Q : A -> Prop) p (f : token -> parser -> presult A) :
  St p -> (forall tk p1, St p1 -> top_kind p1 = top_kind p -> okq Q (f tk p1)) ->
  okq Q (match p_next lexfuel p with ROk (tk, p1) => f tk p1 | RErr e q => RErr e q | RCrash c => RCrash c end).
Proof.
  intros H Hf. destruct (p_next lexfuel p) as [[tk p1]|e q|c] eqn:E; cbn [okq]; try exact I.
  apply Hf; [eapply p_next_St; eassumption|eapply p_next_top; eassumption].
Qed.

Lemma handle_node_St fuel : forall indent p, St p -> is_root (top_kind p) = false -> okq St (handle_node lexfuel fuel indent p).
Proof.
  induction fuel as [|f IH]; intros indent p H Hn; cbn [handle_node]; cbv zeta;
    destruct (t_typ (p_peek p)); try exact I;
    try (apply back_to_type_St; exact H);
    try (apply after_next_St; [exact H|]; intros tk p1 H1 Ht; cbn [okq];
         first [ exact H1
               | apply wf_add_child; [exact H1|rewrite Ht; exact Hn]
               | apply wf_push; [exact H1|reflexivity|rewrite Ht, Hn; discriminate] ]).
  all: try (destruct (Z.leb _ _); [apply back_to_indent_St; exact H|]; apply after_next_St; [exact H|]; intros tk p1 H1 Ht;
            first [exact H1|apply IH; [exact H1|rewrite Ht; exact Hn]]).
  all: try (apply after_next_St; [exact H|]; intros tk p1 H1 Ht;
            repeat (match goal with |- context [if ?c then _ else _] => destruct c end); cbn [okq]; try exact I;
            apply wf_push; [exact H1|reflexivity|rewrite Ht, Hn; discriminate]).
  all: apply after_next_St; [exact H|]; intros tk p1 H1 Ht.
  all: destruct (beqb (t_lit tk) (lit "javascript")); [apply wf_push; [exact H1|reflexivity|rewrite Ht, Hn; discriminate]|].
  all: destruct (beqb (t_lit tk) (lit "css")); [apply wf_push; [exact H1|reflexivity|rewrite Ht, Hn; discriminate]|].
  all: destruct (_ || _); [apply wf_push; [exact H1|reflexivity|rewrite Ht, Hn; discriminate]|exact I].
Qed.

Lemma parse_attributes_stack fuel origin0 indent0 : forall d p,
  okq (fun dp => p_stack (snd dp) = p_stack p) (parse_attributes lexfuel fuel origin0 indent0 d p).
Proof.
  induction fuel as [|f IH]; intros d p; cbn [parse_attributes]; cbv zeta; [reflexivity|].
  destruct (negb _); [reflexivity|].
  destruct (p_next lexfuel p) as [[nt p1]|e q|c] eqn:E1; cbn [okq]; try exact I.
  pose proof (p_next_stack _ _ _ E1) as S1.
  destruct (toktype_eqb (t_typ (p_peek p1)) TAttrOperator).
  - destruct (p_next lexfuel p1) as [[op p2]|e q|c] eqn:E2; cbn [okq]; try exact I.
    pose proof (p_next_stack _ _ _ E2) as S2.
    destruct (_ && _); [exact I|]. destruct (_ && _); [exact I|].
    destruct (p_next lexfuel p2) as [[og p3]|e q|c] eqn:E3; cbn [okq]; try exact I.
    pose proof (p_next_stack _ _ _ E3) as S3.
    destruct (if toktype_eqb (t_typ og) TAttrDynamicValue then _ else _); [|exact I].
    match goal with |- okq _ (parse_attributes _ _ _ _ ?d' p3) => pose proof (IH d' p3) as Hr; destruct (parse_attributes lexfuel f origin0 indent0 d' p3) as [[d2 p4]|? ?|?] end;
      cbn [okq snd] in *; try exact I. rewrite Hr, S3, S2, S1. reflexivity.
  - match goal with |- okq _ (parse_attributes _ _ _ _ ?d' p1) => pose proof (IH d' p1) as Hr; destruct (parse_attributes lexfuel f origin0 indent0 d' p1) as [[d2 p4]|? ?|?] end;
      cbn [okq snd] in *; try exact I. rewrite Hr, S1. reflexivity.
Qed.

Lemma parse_element_St fuel origin indent d p : St p -> top_kind p = KElement origin indent d ->
  okq St (parse_element lexfuel fuel origin indent d p).
Proof.
  intros H Hk. unfold parse_element. cbv zeta.
  assert (Hn : is_root (top_kind p) = false) by (rewrite Hk; reflexivity).
  assert (Hh : forall i, okq St (handle_node lexfuel fuel i p)) by (intro i; apply handle_node_St; assumption).
  assert (Hupd : forall d' p1, St p1 -> top_kind p1 = top_kind p -> St (set_top_kind p1 (KElement origin indent d'))).
  { intros d' p1 H1 Ht. apply wf_set_kind_same; [exact H1|rewrite Ht; exact Hn|reflexivity|rewrite Ht, Hk; discriminate]. }
  assert (Hc : forall f : token -> elem,
             okq St (match p_next lexfuel p with
                     | ROk (tk, p1) => ROk (set_top_kind p1 (KElement origin indent (f tk)))
                     | RErr e q => RErr e q | RCrash c => RCrash c end)).
  { intro f. apply after_next_St; [exact H|]. intros tk p1 H1 Ht. apply Hupd; assumption. }
  destruct (e_complete d).
  - destruct (t_typ (p_peek p)); try apply Hh.
    destruct (Z.leb _ indent); [apply back_to_indent_St; exact H|].
    destruct (e_disallow d || e_selfclosing d); [destruct (e_selfclosing d); exact I|]. apply Hh.
  - destruct (t_typ (p_peek p)); try apply Hh; try apply Hc.
    + destruct (p_next lexfuel p) as [[tk p1]|e q|c] eqn:E; cbn [okq]; try exact I.
      pose proof (p_next_St _ _ _ H E) as H1. pose proof (p_next_top _ _ _ E) as Ht.
      match goal with |- St (if _ then add_child ?q _ else _) => assert (Hq : St q) by (apply Hupd; assumption) end.
      destruct (Nat.eqb _ 0); [|exact Hq]. apply wf_add_child; [exact Hq|]. rewrite (top_kind_set _ _ H1). reflexivity.
    + pose proof (parse_attributes_stack (S fuel) origin indent d p) as Ha.
      destruct (parse_attributes lexfuel (S fuel) origin indent d p) as [[d' p1]|e q|c]; cbn [okq snd] in *; try exact I.
      apply Hupd; [unfold St; rewrite Ha; exact H|unfold top_kind; rewrite Ha; reflexivity].
Qed.

Lemma parse_step_St fuel p : St p -> okq St (parse_step lexfuel fuel p).
Proof.
  intro H. unfold parse_step. cbv zeta.
  destruct (top_kind p) as [pkg user|toks|origin|origin|origin indent d|origin|origin indent|origin|origin indent|origin indent complete|origin|origin indent|origin|fk origin indent] eqn:Hk;
    try exact I.
  - (* root *)
    pose proof (root_imports p pkg user H Hk) as Hw.
    destruct (t_typ (p_peek p)); try exact I; apply after_next_St; try exact H; intros tk p1 H1 Ht; cbn [okq];
      first [ exact H1
            | apply wf_set_kind_root; [exact H1|rewrite Ht, Hk; reflexivity|first [exact Hw|apply add_import_wf; exact Hw]]
            | apply wf_push; [exact H1|reflexivity|reflexivity] ].
  - (* code *)
    destruct (t_typ (p_peek p)); try exact I; try (apply back_to_type_St; exact H);
      apply after_next_St; try exact H; intros tk p1 H1 Ht; cbn [okq];
      (apply wf_set_kind_same; [exact H1|rewrite Ht, Hk; reflexivity|reflexivity|reflexivity]).
  - (* goht *)
    assert (Hn : is_root (top_kind p) = false) by (rewrite Hk; reflexivity).
    destruct (t_typ (p_peek p)); try (apply handle_node_St; assumption).
    apply after_next_St; [exact H|]. intros tk p1 H1 Ht. apply back_to_type_St. exact H1.
  - apply parse_element_St; assumption.
  - (* comment *)
    assert (Hn : is_root (top_kind p) = false) by (rewrite Hk; reflexivity).
    destruct (t_typ (p_peek p)); try (apply handle_node_St; assumption).
    destruct (Z.leb _ indent); [apply back_to_indent_St; exact H|]. destruct (negb _); [exact I|apply handle_node_St; assumption].
  - (* unescape *)
    assert (Hn : is_root (top_kind p) = false) by (rewrite Hk; reflexivity).
    destruct (t_typ (p_peek p)); try (apply handle_node_St; assumption). apply back_to_parent_St. exact H.
  - (* silent *)
    assert (Hn : is_root (top_kind p) = false) by (rewrite Hk; reflexivity).
    destruct (t_typ (p_peek p)); try (apply handle_node_St; assumption).
    destruct complete; [apply handle_node_St; assumption|].
    apply after_next_St; [exact H|]. intros tk p1 H1 Ht. cbn [okq].
    apply wf_set_kind_same; [exact H1|rewrite Ht; exact Hn|reflexivity|rewrite Ht, Hk; discriminate].
  - (* render *)
    apply handle_node_St; [exact H|rewrite Hk; reflexivity].
  - (* filter *)
    assert (Hn : is_root (top_kind p) = false) by (rewrite Hk; reflexivity).
    match goal with |- context [if ?c then _ else _] => destruct c end.
    + apply after_next_St; [exact H|]. intros tk p1 H1 Ht. cbn [okq]. apply wf_add_child; [exact H1|rewrite Ht; exact Hn].
    + destruct (t_typ (p_peek p)); try exact I. apply after_next_St; [exact H|]. intros tk p1 H1 Ht. apply back_to_parent_St. exact H1.
Qed.

Lemma parse_loop_St fuel : forall p, St p -> okq St (parse_loop lexfuel fuel p).
Proof.
  induction fuel as [|f IH]; intros p H; cbn [parse_loop]; [exact I|].
  pose proof (parse_step_St (S f) p H) as Hs. destruct (parse_step lexfuel (S f) p) as [p1|e q|c]; cbn [okq] in *; try exact I.
  destruct (toktype_eqb _ TEOF); [exact Hs|apply IH; exact Hs].
Qed.
End Shape.

(** * the tree that comes out *)
Lemma collapse_shape fuel : forall p, St p -> (List.length (p_stack p) <= S fuel)%nat ->
  exists pkg user items, collapse fuel p = Node (KRoot pkg user) items /\ imports_wf user /\ Forall item items.
Proof.
  induction fuel as [|k IH]; intros p H Hl; unfold St in H; cbn [collapse]; destruct (p_stack p) as [|f [|g rest]] eqn:E; try contradiction.
  - cbn [wf] in H. destruct H as (pkg & user & Hk & Hw & Hc). exists pkg, user, (rev (f_rev_children f)).
    unfold finalize. rewrite Hk. split; [reflexivity|]. split; [exact Hw|]. apply Forall_rev. exact Hc.
  - cbn [List.length] in Hl. lia.
  - cbn [wf] in H. destruct H as (pkg & user & Hk & Hw & Hc). exists pkg, user, (rev (f_rev_children f)).
    unfold finalize. rewrite Hk. split; [reflexivity|]. split; [exact Hw|]. apply Forall_rev. exact Hc.
  - apply IH.
    + apply wf_pop. unfold St. rewrite E. exact H.
    + unfold pop. rewrite E. cbn [set_stack p_stack List.length] in *. lia.
Qed.

Theorem parsed_tree_shape input t :
  parse_bytes input = Parsed t None ->
  exists pkg user items, t = Node (KRoot pkg user) items /\ imports_wf user /\ Forall item items.
Proof.
  unfold parse_bytes. cbv zeta. cbn [p_lexer p_stack].
  destruct (next_token (lex_fuel input) (new_lexer input)) as [tk lx| | | |]; try discriminate.
  set (p1 := mkP lx [mkFrame (KRoot default_pkg []) []] tok_eof tk).
  assert (H1 : St p1).
  { unfold St. cbn. exists default_pkg, []. split; [reflexivity|]. split; [split; [constructor|intros i []]|constructor]. }
  pose proof (parse_loop_St (lex_fuel input) (parse_fuel input) p1 H1) as Hl.
  destruct (parse_loop (lex_fuel input) (parse_fuel input) p1) as [p2|e p2|c]; try discriminate. cbn [okq] in Hl.
  intro Hp. injection Hp as <-. apply collapse_shape; [exact Hl|]. unfold stack_depth. lia.
Qed.

(** * errors stick, so a file that generated without error generated every item without error *)
From GV Require Import Proofs.EmitInv.

Section Sticky.
Variable e0 : bytes.
Definition Ierr (st : est) : Prop := w_err (fst st) = Some e0.

Lemma Ierr_wr x st : Ierr st -> Ierr (wr x st).
Proof. destruct st as [[o n l c a e] loc]. unfold Ierr, wr, write, w_write. cbn [fst snd w_err]. intros ->. reflexivity. Qed.
Lemma Ierr_set_local l st : Ierr st -> Ierr (set_local st l).
Proof. exact (fun H => H). Qed.
Lemma Ierr_after_var st : Ierr st -> Ierr (after_var st).
Proof. destruct st as [[o n l c a e] loc]. unfold Ierr, after_var, get_var_name. cbn [fst snd w_err]. intros ->. reflexivity. Qed.
Lemma Ierr_reset st : Ierr st -> Ierr (reset_var_name st).
Proof. destruct st as [[o n l c a e] loc]. exact (fun H => H). Qed.
Lemma Ierr_fail m st : Ierr st -> Ierr (fail_with m st).
Proof. destruct st as [[o n l c a e] loc]. unfold Ierr, fail_with. cbn [fst snd w_err]. intros ->. reflexivity. Qed.
Lemma Ierr_add sm t x r st : Ierr st -> Ierr (tw_add sm t x r st).
Proof. destruct st as [[o n l c a e] loc]. unfold Ierr, tw_add. cbn [fst snd w_err]. intros ->. reflexivity. Qed.
Lemma Ierr_write_add sm x t st : Ierr st -> Ierr (tw_write_add sm x t st).
Proof. intro H. unfold tw_write_add. apply Ierr_add. apply (tw_wr_inv Ierr Ierr_wr Ierr_set_local). exact H. Qed.
Lemma Ierr_write_indent_add sm x t st : Ierr st -> Ierr (tw_write_indent_add sm x t st).
Proof. intro H. unfold tw_write_indent_add. apply Ierr_add. apply (tw_wri_inv Ierr Ierr_wr Ierr_set_local). exact H. Qed.

Lemma error_sticks sm n next nc st : Ierr st -> Ierr (fst (emit_node sm n next nc st)).
Proof.
  apply (emit_node_inv Ierr Ierr_wr Ierr_set_local Ierr_after_var True (fun _ => Ierr_reset) Ierr_fail
           (fun sm t st => Ierr_write_add sm (t_lit t) t st)
           (fun sm t st => Ierr_write_add sm (go_trim_space (t_lit t)) t st)
           (fun sm a st => Ierr_write_add sm (a_value a) (a_origin a) st)
           (fun sm t st => Ierr_write_indent_add sm (t_lit t) t st) sm n (goht_ok_True n)).
Qed.

Lemma error_sticks_list sm l : forall nc st, Ierr st -> Ierr (emit_list sm l nc st).
Proof.
  induction l as [|c rest IH]; intros nc st H; [exact H|]. cbn [emit_list].
  pose proof (error_sticks sm c (hd_error rest) nc st H) as H1. destruct (emit_node sm c (hd_error rest) nc st) as [s1 f1]. apply IH. exact H1.
Qed.
End Sticky.

Lemma items_all_ok (l : list node) : forall nc st,
  Forall item l -> quiet st -> snd st = wl_init -> w_err (fst (emit_list false l nc st)) = None ->
  Forall (fun n => item_err n = None) l.
Proof.
  induction l as [|n rest IH]; intros nc st Hit Hq Hl Hfin; [constructor|].
  inversion Hit as [|? ? Hi Hit']; subst. cbn [emit_list] in Hfin.
  assert (H0 : Rn st init_st false st init_st).
  { split; [discriminate|]. split; [destruct Hq as [-> _]; reflexivity|]. split; [exact Hl|]. exists []. split; reflexivity. }
  pose proof (item_sim false n (hd_error rest) nc st Hi H0) as (_ & He1 & _).
  pose proof (item_local false n (hd_error rest) nc st Hi Hq) as Hloc.
  pose proof (fun e0 => error_sticks_list e0 false rest) as Hst.
  destruct (emit_node false n (hd_error rest) nc st) as [st1 f1]. cbn [fst snd] in *.
  assert (E1 : w_err (fst st1) = None).
  { destruct (w_err (fst st1)) as [e1|] eqn:E; [|reflexivity]. specialize (Hst e1 f1 st1 E). unfold Ierr in Hst. congruence. }
  constructor.
  - unfold item_err. rewrite <- He1. exact E1.
  - apply (IH f1 st1 Hit'); [split; [exact E1|rewrite Hloc; destruct Hq; assumption]|rewrite Hloc; exact Hl|exact Hfin].
Qed.

(** * end to end *)
Theorem accepted_file_is_header_and_items input out :
  cli_generate input = Some out ->
  exists pkg user items,
    compile_parse input = ODone (Node (KRoot pkg user) items) None /\
    imports_wf user /\ Forall item items /\ Forall (fun n => item_err n = None) items /\
    out = header_text pkg user ++ List.concat (map item_text items).
Proof.
  intro H. unfold cli_generate in H. destruct (compile_parse input) as [t e| | |] eqn:Ec; try discriminate.
  destruct e; [discriminate|]. destruct (generate t) as [o err] eqn:Eg. destruct err; [discriminate|]. injection H as ->.
  assert (Hp : parse_bytes input = Parsed t None).
  { unfold compile_parse in Ec. destruct (parse_bytes input) as [t' e'|c]; [injection Ec as -> ->; reflexivity|destruct c; discriminate]. }
  destruct (parsed_tree_shape input t Hp) as (pkg & user & items & -> & Hw & Hit).
  exists pkg, user, items. split; [reflexivity|]. split; [exact Hw|]. split; [exact Hit|].
  assert (Herr : Forall (fun n => item_err n = None) items).
  { unfold generate in Eg. injection Eg as _ He. rewrite root_unfold in He.
    destruct (header_quiet false pkg user) as [Hq Hl]. exact (items_all_ok items false _ Hit Hq Hl He). }
  split; [exact Herr|]. rewrite (file_is_concatenation pkg user items Hit Herr) in Eg. injection Eg as <-. reflexivity.
Qed.
