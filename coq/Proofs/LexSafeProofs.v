(** No input makes the lexer panic (C06): the slice and index operations of the cursor are always in range.
    [Base] is the invariant of the cursor between operations; [Fresh] holds right after a rune was read and says
    that this rune can be given back ([backup]) or dropped ([drop_width]). *)
From GV Require Import Compiler.Lexer Proofs.Utf8Proofs Proofs.LexProofs Proofs.LexCursorInv.
From Coq Require Import Lia ZArith.
Open Scope N_scope.

Definition nl (s : bytes) : nat := count_byte 10 s.

Definition Base (l : lexst) : Prop :=
  l_panic l = false /\ Forall (fun c => (0 <= c)%Z) (l_pos l) /\ (nl (l_s l) < List.length (l_pos l))%nat.

Definition Fresh (l : lexst) : Prop :=
  (l_width l <= List.length (l_s l))%nat /\
  match l_pos l with
  | c :: rest => (0 < c)%Z \/
                 (c = 0%Z /\ (exists c' rest', rest = c' :: rest' /\ (0 < c')%Z) /\ l_width l = 1%nat /\ exists s', l_s l = 10 :: s')
  | [] => False
  end.


Lemma nl_app a b : nl (a ++ b) = (nl a + nl b)%nat.
Proof. unfold nl. induction a as [|x a IH]; [reflexivity|]. cbn [app count_byte]. rewrite IH. destruct (N.eqb 10 x); lia. Qed.

Lemma nl_rev_append a b : nl (rev_append a b) = (nl a + nl b)%nat.
Proof.
  rewrite rev_append_rev, nl_app. f_equal. induction a as [|x a IH]; [reflexivity|]. cbn [rev]. rewrite nl_app, IH. unfold nl. cbn [count_byte]. destruct (N.eqb 10 x); lia.
Qed.

Lemma nl_skipn k s : (nl (skipn k s) <= nl s)%nat.
Proof.
  revert s. induction k as [|k IH]; intro s; [cbn [skipn]; apply Nat.le_refl|]. destruct s as [|x s]; [cbn [skipn]; apply Nat.le_refl|].
  cbn [skipn]. specialize (IH s). unfold nl in *. cbn [count_byte]. destruct (N.eqb 10 x); lia.
Qed.

(** a rune other than the newline has no newline byte in its encoding *)
Lemma encode_no_newline r : r <> 10 -> nl (encode_rune r) = 0%nat.
Proof.
  intro H. unfold encode_rune, nl.
  assert (E : forall x, x <> 10 -> (if N.eqb 10 x then 1 else 0)%nat = 0%nat) by (intros x Hx; destruct (N.eqb_spec 10 x); [congruence|reflexivity]).
  destruct (N.ltb_spec r 128).
  - cbn [count_byte]. rewrite E by exact H. reflexivity.
  - repeat match goal with |- context [if ?c then _ else _] => lazymatch c with N.eqb _ _ => fail | _ => destruct c end end;
      cbn [count_byte]; rewrite !E by lia; reflexivity.
Qed.

Lemma base_pos_nonempty l : Base l -> exists c rest, l_pos l = c :: rest.
Proof. intros (_ & _ & H). destruct (l_pos l) as [|c rest]; [cbn in H; lia|eauto]. Qed.

Lemma next_spec l : Base l ->
  Base (snd (next l)) /\ match fst (next l) with Some _ => Fresh (snd (next l)) | None => Quiet (snd (next l)) end.
Proof.
  intros HB. destruct (base_pos_nonempty l HB) as (c & rest & Hp). destruct HB as (Hpanic & Hpos & Hnl).
  destruct l as [bf af pv s w ps ind out pn]. cbn [l_pos l_panic l_s] in *. subst ps pn.
  inversion Hpos as [|? ? Hc Hrest]; subst. cbn [List.length] in Hnl.
  unfold next. cbn [l_after l_before]. destruct (decode_rune af) as [[r n]|] eqn:Hd.
  - destruct (take_onto n af bf) as [a' b'] eqn:Ht.
    unfold with_reader, with_pos, with_width, with_s. cbn [l_pos l_s l_width l_panic l_before l_after l_prev l_indent l_out fst snd].
    destruct (N.eqb_spec r 10) as [->|Hr].
    + change (encode_rune 10) with [10]. cbn [List.length rev_append].
      unfold Base, Fresh. cbn [l_panic l_pos l_s l_width List.length].
      split; [split; [reflexivity|split; [repeat constructor; try lia; exact Hrest|]]|].
      * unfold nl in *. cbn [count_byte N.eqb Pos.eqb]. lia.
      * split; [lia|]. right. split; [reflexivity|]. split; [exists (c + 1)%Z, rest; split; [reflexivity|lia]|]. split; [reflexivity|eexists; reflexivity].
    + unfold Base, Fresh. cbn [l_panic l_pos l_s l_width List.length].
      split; [split; [reflexivity|split; [constructor; [lia|exact Hrest]|]]|].
      * rewrite nl_rev_append, (encode_no_newline r Hr). lia.
      * split; [rewrite rev_append_rev, app_length, rev_length; lia|left; lia].
  - cbn [fst snd]. split; [|reflexivity]. unfold Base, with_width, with_reader. cbn [l_panic l_pos l_s List.length]. auto.
Qed.

Lemma backup_spec l : Base l -> Fresh l \/ Quiet l -> Base (backup l).
Proof.
  intros HB Hf. unfold backup. destruct (l_width l) as [|w'] eqn:Hw; [exact HB|].
  destruct Hf as [[Hlen Hfp]|Hq]; [|unfold Quiet in Hq; congruence].
  destruct HB as (Hpanic & Hpos & Hnl). rewrite Hw in *.
  destruct (l_pos l) as [|c rest] eqn:Hp; [contradiction|].
  inversion Hpos as [|? ? Hc Hrest]; subst.
  assert (Hfin : forall (l1 : lexst), l_panic l1 = false -> l_s l1 = l_s l -> Forall (fun c => (0 <= c)%Z) (l_pos l1) ->
                 (nl (skipn (S w') (l_s l)) < List.length (l_pos l1))%nat ->
                 Base (let l2 := match l_prev l1 with
                                 | Some n => let '(b', a') := take_onto n (l_before l1) (l_after l1) in with_reader l1 b' a' None
                                 | None => l1 end in
                       if Nat.ltb (List.length (l_s l2)) (S w') then set_panic l2 else with_s l2 (skipn (S w') (l_s l2)))).
  { intros l1 H1 H2 H3 H4. cbv zeta.
    assert (E : forall l2, l_panic l2 = false -> l_s l2 = l_s l -> l_pos l2 = l_pos l1 ->
                Base (if Nat.ltb (List.length (l_s l2)) (S w') then set_panic l2 else with_s l2 (skipn (S w') (l_s l2)))).
    { intros l2 A B C. rewrite B. destruct (Nat.ltb_spec (List.length (l_s l)) (S w')); [lia|].
      unfold Base, with_s. cbn [l_panic l_pos l_s]. rewrite C. auto. }
    destruct (l_prev l1) as [n|]; [destruct (take_onto n (l_before l1) (l_after l1)) as [b' a']|]; apply E; auto. }
  destruct (Z.eqb_spec c 0) as [->|Hc0].
  - destruct Hfp as [Hlt|(_ & (c' & rest' & -> & Hc') & Hw1 & s' & Hs)]; [lia|].
    injection Hw1 as ->. apply Hfin; cbn [with_pos l_panic l_s l_pos]; auto.
    + inversion Hrest; subst. constructor; [lia|assumption].
    + rewrite Hs in *. cbn [skipn]. unfold nl in *. cbn [count_byte N.eqb Pos.eqb List.length] in *. lia.
  - destruct Hfp as [Hlt|(Hc1 & _)]; [|congruence].
    apply Hfin; cbn [with_pos l_panic l_s l_pos]; auto.
    + constructor; [lia|assumption].
    + pose proof (nl_skipn (S w') (l_s l)). cbn [List.length] in *. lia.
Qed.

Lemma drop_width_spec l : Base l -> Fresh l \/ Quiet l -> Base (drop_width l).
Proof.
  intros (Hpanic & Hpos & Hnl) Hf. unfold drop_width.
  assert (Hle : (l_width l <= List.length (l_s l))%nat) by (destruct Hf as [[H _]|H]; [exact H|unfold Quiet in H; lia]).
  destruct (Nat.ltb_spec (List.length (l_s l)) (l_width l)); [lia|].
  unfold Base, with_s. cbn [l_panic l_pos l_s]. pose proof (nl_skipn (l_width l) (l_s l)). split; [exact Hpanic|split; [exact Hpos|lia]].
Qed.

Lemma peek_ahead_base n l : Base l -> Base (snd (peek_ahead n l)).
Proof. intros (A & B & C). unfold peek_ahead, Base, with_reader. cbn [snd l_panic l_pos l_s]. auto. Qed.

Lemma ignore_base l : Base l -> Base (ignore l).
Proof.
  intro H. destruct (base_pos_nonempty l H) as (c & rest & Hp). destruct H as (A & B & C).
  unfold ignore, Base, with_s. cbn [l_panic l_pos l_s]. rewrite Hp in *. split; [exact A|split; [exact B|cbn; lia]].
Qed.

Lemma with_indent_base l i : Base l -> Base (with_indent l i).
Proof. exact (fun H => H). Qed.

Lemma with_out_base l o : Base l -> Base (with_out l o).
Proof. exact (fun H => H). Qed.

Lemma position_ok l : Base l -> snd (position l) = false.
Proof.
  intros (_ & _ & Hn). unfold position. fold (nl (l_s l)).
  destruct (nth_error (l_pos l) (nl (l_s l))) eqn:E; [reflexivity|]. apply nth_error_None in E. lia.
Qed.

Lemma emit_base t l : Base l -> Base (emit t l).
Proof.
  intro H. pose proof (position_ok l H) as Hp. destruct (base_pos_nonempty l H) as (c & rest & Hpos). destruct H as (A & B & C).
  unfold emit. destruct (position l) as [[line col] bad]. cbn [snd] in Hp. subst bad.
  unfold Base, with_s, with_out. cbn [l_panic l_pos l_s]. rewrite Hpos in *. split; [exact A|split; [exact B|cbn; lia]].
Qed.

Lemma errorf_base m l : Base l -> Base (snd (errorf m l)).
Proof.
  intro H. pose proof (position_ok l H) as Hp. unfold errorf. destruct (position l) as [[line col] bad]. cbn [snd] in Hp. subst bad.
  cbn [snd]. exact H.
Qed.

(** * every state function keeps the cursor in range (the generic principle of LexCursorInv) *)
Theorem step_base st l : Base l -> Base (snd (step st l)).
Proof.
  exact (step_inv Base Fresh next_spec backup_spec drop_width_spec peek_ahead_base ignore_base with_indent_base emit_base errorf_base st l).
Qed.
