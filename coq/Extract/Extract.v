(** Extraction of the executable models for the correspondence checks.
    ExtrOcamlBasic only: bool, option, unit, list, prod, sumbool, sumor map to the OCaml
    types; N, Z, positive, nat stay inductive. *)
Require Extraction.
Require Import ExtrOcamlBasic.
From GV Require Import Base.Bytes Base.GoStr Runtime.Rt Compiler.Tok Compiler.Lexer.
Extraction "model.ml" lit html_escape html_unescape5 decode_rune encode_rune rune_count
  build_class_list build_attr_list object_id object_class goht_if itoa
  go_quote go_quote_rune toktype_name token_string new_lexer next_token lex_fuel.
