(** Extraction of the executable models for the correspondence checks.
    ExtrOcamlBasic only: bool, option, unit, list, prod, sumbool, sumor map to the OCaml
    types; N, Z, positive, nat stay inductive. *)
Require Extraction.
Require Import ExtrOcamlBasic.
From GV Require Import Base.Bytes Base.GoStr Base.Regex Runtime.Rt Compiler.Tok Compiler.Lexer Compiler.Parser Compiler.Emit Compiler.SrcMap Compiler.Compile Proxy.AddImport Proxy.Proxy Cli.Generate Runtime.Children Runtime.Pool Runtime.Render Proofs.FragCheck Proofs.ParserTermProofs Proofs.NukeDocProofs Proofs.HtmlTokProofs.
Extraction "model.ml" lit html_escape html_unescape5 decode_rune encode_rune rune_count
  build_class_list build_attr_list object_id object_class goht_if itoa
  go_quote go_quote_rune toktype_name token_string new_lexer next_token lex_fuel
  compile_parse generate compose tree_dump perr_string sm_entries keys_unique s2t t2s go_unquote cli_generate lsp_compose nuke proxy_add_import detail_package imports_of apply_insert
  run ps_init model_compile goht_generate exec_template denote_template pool_run world_init render_top document file_in_fragment compile_parse_with doc_check hrun.
