(** Model of `goht generate` (cmd/goht/cmd/generate.go:72-293, without --watch) over an abstract file
    system: a finite map from path (relative to --path, '/'-separated) to content and modification time.
    The compiler and gofmt are one [Section] variable: [compile content = Some formatted_code] or [None]
    when parsing, code generation or formatting fails.  The worker pool is the order in which the queue
    of stale templates is processed. *)
From GV Require Export Proxy.Proxy.
Open Scope N_scope.

Record file := mkFile { f_content : bytes; f_mtime : Z }.
Definition fsys := list (bytes * file).

Record flags := mkFlags { fl_force : bool; fl_keep : bool; fl_skip : list bytes }.

(** directory names on the way to a file: every path segment that is followed by a '/' *)
Fixpoint dirs_aux (s cur : bytes) : list bytes :=
  match s with
  | [] => []
  | x :: s' => if N.eqb x 47 then rev cur :: dirs_aux s' [] else dirs_aux s' (x :: cur)
  end.
Definition dir_segments (p : bytes) : list bytes := dirs_aux p [].

Definition skip_name (fl : flags) (name : bytes) : bool :=
  has_prefix (lit ".") name || has_prefix (lit "_") name || mem_bytes name (fl_skip fl).

(** walkDir returns SkipDir for such a directory: nothing below it is visited *)
Definition skipped (fl : flags) (p : bytes) : bool := existsb (skip_name fl) (dir_segments p).

Definition is_template (p : bytes) : bool := has_suffix c_GohtFileExtension p.
Definition is_output (p : bytes) : bool := has_suffix c_GeneratedFileExtension p.
Definition output_of (p : bytes) : bytes := p ++ lit ".go".
Definition template_of (p : bytes) : bytes := firstn (List.length p - 3) p.

Inductive action :=
| Remove (p : bytes)
| Write (p : bytes) (content : bytes).

Section Generate.
Variable compile : bytes -> option bytes.
Variable now : Z.

Definition apply_action (fs : fsys) (a : action) : fsys :=
  match a with
  | Remove p => remove p fs
  | Write p c => update p (mkFile c now) fs
  end.

(** the walk: orphaned outputs to delete, and the queue of stale templates, both in walk order *)
Definition orphan (fl : flags) (fs : fsys) (p : bytes) : bool :=
  negb (skipped fl p) && is_output p && negb (fl_keep fl) &&
  match lookup (template_of p) fs with Some _ => false | None => true end.

Definition stale (fl : flags) (fs : fsys) (p : bytes) (f : file) : bool :=
  negb (skipped fl p) && is_template p &&
  (fl_force fl ||
   match lookup (output_of p) fs with
   | None => true
   | Some o => Z.ltb (f_mtime o) (f_mtime f)
   end).

Definition removals (fl : flags) (fs : fsys) : list action :=
  map (fun kv => Remove (fst kv)) (filter (fun kv => orphan fl fs (fst kv)) fs).

Definition queue (fl : flags) (fs : fsys) : list (bytes * file) :=
  filter (fun kv => stale fl fs (fst kv) (snd kv)) fs.

(** processFile: compile, format, write next to the template; a failure writes nothing *)
Definition process (kv : bytes * file) : list action :=
  match compile (f_content (snd kv)) with
  | Some code => [Write (output_of (fst kv)) code]
  | None => []
  end.

(** [order] is the order in which the workers finish the queued templates *)
Definition generate_with (fl : flags) (fs : fsys) (order : list (bytes * file)) : fsys :=
  fold_left apply_action (removals fl fs ++ flat_map process order) fs.

Definition goht_generate (fl : flags) (fs : fsys) : fsys := generate_with fl fs (queue fl fs).

End Generate.
