(** Model of the buffer pool of runtime.go (bufferPool, GetBuffer, ReleaseBuffer) as generated templates use
    it: GetBuffer at entry, writes into the own buffer, one final Write of Buffer.Bytes() on success, deferred
    ReleaseBuffer (Reset, then Put) on every path.  Renders of several goroutines are interleaved at the
    granularity of these steps; sync.Pool's Get may hand out any pooled buffer or a new one. *)
From GV Require Export Base.Regex.
Open Scope N_scope.

Definition rid := nat.

Inductive pstep :=
| PGet (r : rid) (choice : option nat)    (* GetBuffer: the choice-th pooled buffer, or a new one *)
| PWrite (r : rid) (s : bytes)            (* __buf.WriteString(s) *)
| PFinish (r : rid) (ok : bool).          (* final write of Bytes() if ok; deferred ReleaseBuffer either way *)

Record world := mkW {
  w_pool : list bytes;               (* contents of the pooled buffers *)
  w_owned : list (rid * bytes);      (* buffers currently held by running renders *)
  w_written : list (rid * bytes)     (* what each finished render wrote to its destination *)
}.
Definition world_init : world := mkW [] [] [].

Fixpoint take_nth {A} (n : nat) (l : list A) : option (A * list A) :=
  match n, l with
  | O, x :: l' => Some (x, l')
  | S k, x :: l' => match take_nth k l' with Some (y, r) => Some (y, x :: r) | None => None end
  | _, [] => None
  end.

Fixpoint owned_get (r : rid) (o : list (rid * bytes)) : option bytes :=
  match o with [] => None | (k, b) :: o' => if Nat.eqb k r then Some b else owned_get r o' end.
Fixpoint owned_set (r : rid) (b : bytes) (o : list (rid * bytes)) : list (rid * bytes) :=
  match o with
  | [] => [(r, b)]
  | (k, x) :: o' => if Nat.eqb k r then (k, b) :: o' else (k, x) :: owned_set r b o'
  end.
Definition owned_del (r : rid) (o : list (rid * bytes)) : list (rid * bytes) :=
  filter (fun kb => negb (Nat.eqb (fst kb) r)) o.

Definition pool_step (w : world) (s : pstep) : world :=
  match s with
  | PGet r choice =>
    match owned_get r (w_owned w) with
    | Some _ => w                                   (* a render gets its buffer once *)
    | None =>
      match choice with
      | Some n =>
        match take_nth n (w_pool w) with
        | Some (b, rest) => mkW rest (owned_set r b (w_owned w)) (w_written w)
        | None => mkW (w_pool w) (owned_set r [] (w_owned w)) (w_written w)
        end
      | None => mkW (w_pool w) (owned_set r [] (w_owned w)) (w_written w)
      end
    end
  | PWrite r s =>
    match owned_get r (w_owned w) with
    | Some b => mkW (w_pool w) (owned_set r (b ++ s) (w_owned w)) (w_written w)
    | None => w
    end
  | PFinish r ok =>
    match owned_get r (w_owned w) with
    | Some b =>
      (* Bytes() builds a new slice (the regexp replacement): the destination never aliases the buffer;
         ReleaseBuffer resets the buffer before it goes back to the pool *)
      mkW ([] :: w_pool w) (owned_del r (w_owned w)) (if ok then (r, nuke b) :: w_written w else w_written w)
    | None => w
    end
  end.

Definition pool_run (steps : list pstep) (w : world) : world := fold_left pool_step steps w.

(** the steps of one render, in program order *)
Definition steps_of (r : rid) (steps : list pstep) : list pstep :=
  filter (fun s => match s with PGet k _ | PWrite k _ | PFinish k _ => Nat.eqb k r end) steps.

(** what a render writes when it runs alone: the concatenation of its writes, whitespace markers removed *)
Fixpoint writes_of (steps : list pstep) : bytes :=
  match steps with
  | [] => []
  | PWrite _ s :: rest => s ++ writes_of rest
  | _ :: rest => writes_of rest
  end.
