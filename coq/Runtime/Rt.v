(** Model of the pure helpers of runtime.go / helpers.go (after the fix commits):
    BuildClassList, BuildAttributeList, ObjectID, ObjectClass, EscapeString, If.
    Go maps are association lists in *iteration order* (arbitrary). *)
From GV Require Export Base.GoStr.
Open Scope N_scope.

Inductive gval :=
| VStr (s : bytes)
| VStrs (l : list bytes)
| VMapB (m : list (bytes * bool))
| VMapS (m : list (bytes * bytes))
| VOther (tag : N).

Definition nonempty (s : bytes) : bool := match s with [] => false | _ => true end.

(** keys of a map[string]bool that are true and non-empty, in iteration order *)
Definition true_keys (m : list (bytes * bool)) : list bytes :=
  map fst (filter (fun kv => snd kv && nonempty (fst kv)) m).

Definition class_items (v : gval) : option (list bytes) :=
  match v with
  | VStr s => Some (if nonempty s then [s] else [])
  | VStrs l => Some (filter nonempty l)
  | VMapB m => Some (sort_bytes (true_keys m))
  | _ => None
  end.

Fixpoint class_items_all (args : list gval) : option (list bytes) :=
  match args with
  | [] => Some []
  | v :: rest =>
    match class_items v with
    | None => None
    | Some l => match class_items_all rest with None => None | Some r => Some (l ++ r) end
    end
  end.

(** BuildClassList: [None] is the returned error (result string is then "") *)
Definition build_class_list (args : list gval) : option bytes :=
  option_map (fun l => html_escape (join (lit " ") l)) (class_items_all args).

Definition attr_entry_s (kv : bytes * bytes) : bytes :=
  html_escape (fst kv) ++ lit "=""" ++ html_escape (snd kv) ++ lit """".

Definition attr_entries (v : gval) : option (list bytes) :=
  match v with
  | VMapB m => Some (map (fun kv => html_escape (fst kv)) (filter (fun kv => snd kv) m))
  | VMapS m => Some (map attr_entry_s (filter (fun kv => nonempty (snd kv)) m))
  | _ => None
  end.

Fixpoint attr_entries_all (args : list gval) : option (list bytes) :=
  match args with
  | [] => Some []
  | v :: rest =>
    match attr_entries v with
    | None => None
    | Some l => match attr_entries_all rest with None => None | Some r => Some (l ++ r) end
    end
  end.

Definition build_attr_list (args : list gval) : option bytes :=
  option_map (fun l => join (lit " ") (sort_bytes l)) (attr_entries_all args).

(** an object reference value: which of the two methods it has and what they return *)
Record objref := { obj_id : option bytes; obj_class : option bytes }.

Definition first_prefix (prefix : list bytes) : list bytes :=
  match prefix with [] => [] | p :: _ => [p] end.
Definition opt_list (o : option bytes) : list bytes :=
  match o with None => [] | Some x => [x] end.

Definition object_id (o : objref) (prefix : list bytes) : bytes :=
  match obj_id o with
  | None => []
  | Some i => html_escape (join (lit "_") (first_prefix prefix ++ opt_list (obj_class o) ++ [i]))
  end.

Definition object_class (o : objref) (prefix : list bytes) : bytes :=
  match obj_class o with
  | None => []
  | Some c => join (lit "_") (first_prefix prefix ++ [c])
  end.

Definition goht_if (c : bool) (a b : bytes) : bytes := if c then a else b.
