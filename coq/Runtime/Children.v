(** Model of the children mechanism of runtime.go (ctxValue.children, PopChildren, PushChildren) as the
    generated code uses it, and its lexically scoped specification (property C05).

    Generated code (compiler/nodes.go): every template starts with  ctx, __children = goht.PopChildren(ctx);
    `= @render X(...)` with a nested block becomes  X(...).Render(goht.PushChildren(ctx, block), buf)  where
    block is a closure over the caller's variables, including the caller's own __children; without a block it
    is  X(...).Render(ctx, buf);  `= @children` is  __children.Render(ctx, buf).
    The slot lives in one *ctxValue shared by every context derived during a render. *)
From GV Require Export Base.Bytes.
Open Scope N_scope.

Inductive tstmt :=
| SLit (s : bytes)                                  (* any output that does not involve children *)
| SChildren                                         (* = @children *)
| SRender (callee : nat) (block : option (list tstmt)).   (* = @render T_callee(...) with / without nested content *)

(** a children value: the block and the caller's own children, visible inside the block *)
Inductive clo := Clo (body : list tstmt) (captured : option clo).

Section Children.
Variable templates : list (list tstmt).

Definition body_of (i : nat) : list tstmt := nth i templates [].

(** * operational model: the slot of the shared ctxValue *)
(** [exec_stmts fuel stmts children slot] = (output, slot afterwards); [children] is the local variable
    __children of the function being executed *)
Fixpoint exec_stmts (fuel : nat) (stmts : list tstmt) (children : option clo) (slot : option clo) : bytes * option clo :=
  match fuel with
  | O => ([], slot)
  | S f =>
    match stmts with
    | [] => ([], slot)
    | s :: rest =>
      let '(out1, slot1) :=
          match s with
          | SLit x => (x, slot)
          | SChildren =>
            (* __children.Render(ctx, buf): the empty TemplateFunc when there were none *)
            match children with
            | None => ([], slot)
            | Some (Clo body cap) => exec_stmts f body cap slot
            end
          | SRender callee None =>
            (* PopChildren at the callee's entry: takes the slot's content and clears it *)
            exec_stmts f (body_of callee) slot None
          | SRender callee (Some blk) =>
            (* PushChildren(ctx, block) sets the slot, the callee's entry pops it *)
            let pushed := Some (Clo blk children) in
            exec_stmts f (body_of callee) pushed None
          end in
      let '(out2, slot2) := exec_stmts f rest children slot1 in
      (out1 ++ out2, slot2)
    end
  end.

(** Render of template [i] from outside: initContext gives an empty slot, the entry pops it *)
Definition exec_template (fuel : nat) (i : nat) : bytes := fst (exec_stmts fuel (body_of i) None None).

(** * specification: children are lexically scoped values, there is no slot *)
Fixpoint denote_stmts (fuel : nat) (stmts : list tstmt) (children : option clo) : bytes :=
  match fuel with
  | O => []
  | S f =>
    match stmts with
    | [] => []
    | s :: rest =>
      (match s with
       | SLit x => x
       | SChildren => match children with None => [] | Some (Clo body cap) => denote_stmts f body cap end
       | SRender callee None => denote_stmts f (body_of callee) None
       | SRender callee (Some blk) => denote_stmts f (body_of callee) (Some (Clo blk children))
       end) ++ denote_stmts f rest children
    end
  end.

Definition denote_template (fuel : nat) (i : nat) : bytes := denote_stmts fuel (body_of i) None.

End Children.
