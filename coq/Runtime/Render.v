(** Model of Render as generated templates perform it (property C12): the body writes into goht's buffer, every
    fallible statement is followed by `if __err != nil { return }`, a nested template or a children block is
    rendered into the same buffer (its destination IS goht's buffer type, so it neither copies nor releases),
    and only the outermost call, whose destination is a foreign io.Writer, hands the finished document over in
    one Write after the body has succeeded.
    Children are lexically scoped values here: that the context slot implements exactly this is C05. *)
From GV Require Export Base.Regex.
Open Scope N_scope.

Inductive fstmt :=
| FLit (s : bytes)                                   (* output that cannot fail *)
| FDyn (site : nat) (s : bytes)                      (* a dynamic expression or helper: [s], or an error when the site fails *)
| FChildren
| FRender (callee : nat) (block : option (list fstmt)).

Inductive fclo := FClo (body : list fstmt) (captured : option fclo).

(** the destination: what a Write call accepts, and whether it reports an error *)
Inductive wmode := WOk | WFail | WShort.
Definition dest_write (m : wmode) (p : bytes) : bytes * bool :=
  match m with
  | WOk => (p, false)
  | WFail => ([], true)
  | WShort => (firstn (Nat.div (List.length p) 2) p, true)
  end.

Inductive rstatus := SOk | SSite (site : nat) | SWriter | SFuel.

Section Render.
Variable templates : list (list fstmt).
Variable fails : nat -> bool.

Definition fbody_of (i : nat) : list fstmt := nth i templates [].

(** [frun fuel stmts children buf] = (buffer afterwards, the site that failed if one did) *)
Fixpoint frun (fuel : nat) (stmts : list fstmt) (children : option fclo) (buf : bytes) : bytes * option rstatus :=
  match fuel with
  | O => (buf, Some SFuel)
  | S f =>
    match stmts with
    | [] => (buf, None)
    | s :: rest =>
      let '(buf1, e1) :=
          match s with
          | FLit x => (buf ++ x, None)
          | FDyn site x => if fails site then (buf, Some (SSite site)) else (buf ++ x, None)
          | FChildren => match children with None => (buf, None) | Some (FClo body cap) => frun f body cap buf end
          | FRender callee None => frun f (fbody_of callee) None buf
          | FRender callee (Some blk) => frun f (fbody_of callee) (Some (FClo blk children)) buf
          end in
      match e1 with
      | Some e => (buf1, Some e)                      (* if __err != nil { return } *)
      | None => frun f rest children buf1
      end
    end
  end.

(** Render of template [i] on a foreign writer: (what the destination accepted, call by call; the result) *)
Definition render_top (fuel : nat) (i : nat) (m : wmode) : list bytes * rstatus :=
  match frun fuel (fbody_of i) None [] with
  | (_, Some e) => ([], e)                            (* the deferred ReleaseBuffer runs; nothing was handed over *)
  | (buf, None) =>
    let '(accepted, failed) := dest_write m (nuke buf) in
    ([accepted], if failed then SWriter else SOk)
  end.

End Render.

(** the document: what the body writes when nothing fails *)
Definition document (templates : list (list fstmt)) (fuel : nat) (i : nat) : bytes :=
  nuke (fst (frun templates (fun _ => false) fuel (fbody_of templates i) None [])).
