// constgen is the translator half of the tie between the Coq model and /repo: it reads the
// package-level tables and literals the model depends on out of the Go source (go/parser) and
// prints coq/Gen/Consts.v.  It fails if a table it expects is missing or is no longer a literal.
package main

import (
	"fmt"
	"go/ast"
	"go/parser"
	"go/token"
	"os"
	"path/filepath"
	"strconv"
	"strings"
)

var fset = token.NewFileSet()
var out strings.Builder
var failed bool

func fail(format string, a ...any) {
	fmt.Fprintf(os.Stderr, "constgen: "+format+"\n", a...)
	failed = true
}

func parse(path string) *ast.File {
	f, err := parser.ParseFile(fset, path, nil, parser.ParseComments)
	if err != nil {
		fail("cannot parse %s: %v", path, err)
		return &ast.File{}
	}
	return f
}

func strLit(e ast.Expr) (string, bool) {
	switch v := e.(type) {
	case *ast.BasicLit:
		if v.Kind == token.STRING {
			s, err := strconv.Unquote(v.Value)
			return s, err == nil
		}
	case *ast.BinaryExpr: // "a" + "b" and NukeAfter + `\s*|\s*` + NukeBefore are resolved by the caller
		l, ok1 := strLit(v.X)
		r, ok2 := strLit(v.Y)
		if ok1 && ok2 && v.Op == token.ADD {
			return l + r, true
		}
	case *ast.Ident:
		if s, ok := consts[v.Name]; ok {
			return s, true
		}
	}
	return "", false
}

var consts = map[string]string{}

func collectConsts(f *ast.File) {
	ast.Inspect(f, func(n ast.Node) bool {
		if d, ok := n.(*ast.GenDecl); ok && d.Tok == token.CONST {
			for _, s := range d.Specs {
				vs := s.(*ast.ValueSpec)
				for i, name := range vs.Names {
					if i < len(vs.Values) {
						if v, ok := strLit(vs.Values[i]); ok {
							consts[name.Name] = v
						}
					}
				}
			}
		}
		return true
	})
}

func stringSlice(e ast.Expr) ([]string, bool) {
	cl, ok := e.(*ast.CompositeLit)
	if !ok {
		return nil, false
	}
	var res []string
	for _, el := range cl.Elts {
		s, ok := strLit(el)
		if !ok {
			return nil, false
		}
		res = append(res, s)
	}
	return res, true
}

func varStringSlice(f *ast.File, name string) []string {
	var res []string
	found := false
	ast.Inspect(f, func(n ast.Node) bool {
		if vs, ok := n.(*ast.ValueSpec); ok {
			for i, id := range vs.Names {
				if id.Name == name && i < len(vs.Values) {
					if s, ok := stringSlice(vs.Values[i]); ok {
						res, found = s, true
					}
				}
			}
		}
		return true
	})
	if !found {
		fail("string slice %s not found as a literal", name)
	}
	return res
}

func coqBytes(s string) string {
	if s == "" {
		return "[]"
	}
	parts := make([]string, len(s))
	for i := 0; i < len(s); i++ {
		parts[i] = strconv.Itoa(int(s[i]))
	}
	return "[" + strings.Join(parts, "; ") + "]"
}

func defBytes(name, s string) {
	fmt.Fprintf(&out, "(* %s = %q *)\nDefinition %s : bytes := %s.\n\n", name, s, name, coqBytes(s))
}

func defList(name string, l []string) {
	parts := make([]string, len(l))
	for i, s := range l {
		parts[i] = coqBytes(s)
	}
	fmt.Fprintf(&out, "(* %s = %q *)\nDefinition %s : list bytes := [%s].\n\n", name, l, name, strings.Join(parts, ";\n  "))
}

// funcDecl returns the body of the function (or method) with the given name.
func funcDecl(f *ast.File, recv, name string) *ast.FuncDecl {
	for _, d := range f.Decls {
		fd, ok := d.(*ast.FuncDecl)
		if !ok || fd.Name.Name != name {
			continue
		}
		if recv == "" && fd.Recv == nil {
			return fd
		}
		if recv != "" && fd.Recv != nil {
			t := fd.Recv.List[0].Type
			if st, ok := t.(*ast.StarExpr); ok {
				t = st.X
			}
			if id, ok := t.(*ast.Ident); ok && id.Name == recv {
				return fd
			}
		}
	}
	fail("function %s.%s not found", recv, name)
	return &ast.FuncDecl{Body: &ast.BlockStmt{}}
}

// assignedString finds `name := <string literal>` or `const name = ...` inside fn.
func assignedString(fd *ast.FuncDecl, name string) string {
	res, found := "", false
	ast.Inspect(fd, func(n ast.Node) bool {
		switch v := n.(type) {
		case *ast.AssignStmt:
			for i, l := range v.Lhs {
				if id, ok := l.(*ast.Ident); ok && id.Name == name && i < len(v.Rhs) {
					if s, ok := strLit(v.Rhs[i]); ok {
						res, found = s, true
					}
				}
			}
		case *ast.ValueSpec:
			for i, id := range v.Names {
				if id.Name == name && i < len(v.Values) {
					if s, ok := strLit(v.Values[i]); ok {
						res, found = s, true
					}
				}
			}
		}
		return true
	})
	if !found {
		fail("string %s not found in %s", name, fd.Name.Name)
	}
	return res
}

func regexSource(f *ast.File, name string) string {
	res, found := "", false
	ast.Inspect(f, func(n ast.Node) bool {
		if vs, ok := n.(*ast.ValueSpec); ok {
			for i, id := range vs.Names {
				if id.Name == name && i < len(vs.Values) {
					if call, ok := vs.Values[i].(*ast.CallExpr); ok && len(call.Args) == 1 {
						if s, ok := strLit(call.Args[0]); ok {
							res, found = s, true
						}
					}
				}
			}
		}
		return true
	})
	if !found {
		fail("regexp %s not found", name)
	}
	return res
}

func main() {
	repo := "/repo"
	if len(os.Args) > 1 {
		repo = os.Args[1]
	}
	p := func(parts ...string) string { return filepath.Join(append([]string{repo}, parts...)...) }
	runtimeF := parse(p("runtime.go"))
	lexerF := parse(p("compiler", "lexer.go"))
	lexersF := parse(p("compiler", "lexers.go"))
	nodesF := parse(p("compiler", "nodes.go"))
	serverF := parse(p("internal", "proxy", "server.go"))
	clientF := parse(p("internal", "proxy", "client.go"))
	genF := parse(p("cmd", "goht", "cmd", "generate.go"))
	for _, f := range []*ast.File{runtimeF, lexerF, lexersF, nodesF, serverF, clientF, genF} {
		collectConsts(f)
	}

	out.WriteString("(** GENERATED by harness/cmd/constgen from /repo on every check run - do not edit.\n    Constant tables of the goht source the models depend on. *)\nFrom GV Require Import Base.Bytes.\nOpen Scope N_scope.\n\n")

	for _, c := range []string{"NukeAfter", "NukeBefore", "doNotEditMessage", "GohtFileExtension", "GeneratedFileExtension"} {
		v, ok := consts[c]
		if !ok {
			fail("constant %s not found", c)
		}
		defBytes("c_"+c, v)
	}
	defBytes("c_nukeWhitespaceRe", regexSource(runtimeF, "nukeWhitespaceRe"))
	defBytes("c_reFmtText", regexSource(nodesF, "reFmtText"))
	defBytes("c_completionWithImport", regexSource(serverF, "completionWithImport"))
	defBytes("c_nonImportKeywordRegexp", regexSource(serverF, "nonImportKeywordRegexp"))

	defList("c_selfClosedTags", varStringSlice(nodesF, "selfClosedTags"))
	defList("c_openingStatements", varStringSlice(nodesF, "openingStatements"))
	defList("c_elseStatements", varStringSlice(nodesF, "elseStatements"))
	defList("c_filters", varStringSlice(lexersF, "filters"))
	defBytes("c_mayFollowIdentifier", assignedString(funcDecl(lexersF, "", "hamlIdentifier"), "mayFollowIdentifier"))

	// token queue capacity: make(chan token, N) in newLexer
	capFound := false
	ast.Inspect(funcDecl(lexerF, "", "newLexer"), func(n ast.Node) bool {
		if call, ok := n.(*ast.CallExpr); ok {
			if id, ok := call.Fun.(*ast.Ident); ok && id.Name == "make" && len(call.Args) == 2 {
				if _, ok := call.Args[0].(*ast.ChanType); ok {
					if bl, ok := call.Args[1].(*ast.BasicLit); ok {
						fmt.Fprintf(&out, "Definition c_token_queue_cap : nat := %s.\n\n", bl.Value)
						capFound = true
					}
				}
			}
		}
		return true
	})
	if !capFound {
		fail("token channel capacity not found in newLexer")
	}

	// NewRootNode: goht's own imports and the default package
	root := funcDecl(nodesF, "", "NewRootNode")
	var rootImports []string
	defaultPkg, pkgFound := "", false
	ast.Inspect(root, func(n ast.Node) bool {
		if kv, ok := n.(*ast.KeyValueExpr); ok {
			if id, ok := kv.Key.(*ast.Ident); ok {
				if id.Name == "imports" {
					if s, ok := stringSlice(kv.Value); ok {
						rootImports = s
					}
				}
				if id.Name == "pkg" {
					ast.Inspect(kv.Value, func(m ast.Node) bool {
						if kv2, ok := m.(*ast.KeyValueExpr); ok {
							if id2, ok := kv2.Key.(*ast.Ident); ok && id2.Name == "lit" {
								if s, ok := strLit(kv2.Value); ok {
									defaultPkg, pkgFound = s, true
								}
							}
						}
						return true
					})
				}
			}
		}
		return true
	})
	if rootImports == nil || !pkgFound {
		fail("NewRootNode: imports or default package not found")
	}
	defList("c_rootImports", rootImports)
	defBytes("c_defaultPackage", defaultPkg)

	// header: the first string written by RootNode.Source
	header, hFound := "", false
	ast.Inspect(funcDecl(nodesF, "RootNode", "Source"), func(n ast.Node) bool {
		if hFound {
			return false
		}
		if call, ok := n.(*ast.CallExpr); ok {
			if sel, ok := call.Fun.(*ast.SelectorExpr); ok && sel.Sel.Name == "Write" && len(call.Args) == 1 {
				if s, ok := strLit(call.Args[0]); ok {
					header, hFound = s, true
				}
			}
		}
		return true
	})
	if !hFound {
		fail("generated-file header not found")
	}
	defBytes("c_header", header)
	gs := funcDecl(nodesF, "GohtNode", "Source")
	defBytes("c_gohtEntry", assignedString(gs, "entry"))
	defBytes("c_gohtExit", assignedString(gs, "exit"))

	// default --skip-dirs
	var skip []string
	ast.Inspect(genF, func(n ast.Node) bool {
		if call, ok := n.(*ast.CallExpr); ok {
			if sel, ok := call.Fun.(*ast.SelectorExpr); ok && sel.Sel.Name == "StringSliceVar" && len(call.Args) >= 3 {
				if name, ok := strLit(call.Args[1]); ok && name == "skip-dirs" {
					if s, ok := stringSlice(call.Args[2]); ok {
						skip = s
					}
				}
			}
		}
		return true
	})
	if skip == nil {
		fail("default --skip-dirs not found")
	}
	defList("c_defaultSkipDirs", skip)

	// strconv.IsPrint as ranges (taken from the Go runtime this harness is built with)
	out.WriteString("(* strconv.IsPrint for runes >= 128, as inclusive ranges *)\nDefinition c_isPrintRanges : list (N * N) := [\n")
	first := true
	start := -1
	for r := rune(128); r <= 0x10FFFF+1; r++ {
		pr := r <= 0x10FFFF && strconv.IsPrint(r)
		if pr && start < 0 {
			start = int(r)
		}
		if !pr && start >= 0 {
			if !first {
				out.WriteString(";\n")
			}
			first = false
			fmt.Fprintf(&out, "  (%d, %d)", start, int(r)-1)
			start = -1
		}
	}
	out.WriteString("].\n")

	if failed {
		os.Exit(1)
	}
	fmt.Print(out.String())
}
