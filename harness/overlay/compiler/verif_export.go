//go:build verif && verifshim

package compiler

// Exports used only by the verification harness (injected with `go build -overlay`).

type VerifToken struct {
	Typ  string
	Lit  string
	Line int
	Col  int
}

// VerifTokens runs the lexer alone over input and returns its token stream
// (up to and including the first EOF or Error token, at most max tokens).
func VerifTokens(input []byte, max int) []VerifToken {
	l := newLexer(input)
	var out []VerifToken
	for len(out) < max {
		t := l.nextToken()
		out = append(out, VerifToken{Typ: t.typ.String(), Lit: t.lit, Line: t.line, Col: t.col})
		if t.typ == tEOF || t.typ == tError {
			break
		}
	}
	return out
}
