//go:build verif && verifshim

package proxy

// Exports used only by the verification harness (injected with `go build -overlay`).

func VerifAddImport(lines []string, pkg string) (int, string) {
	ins := addImport(lines, pkg)
	return ins.line, ins.text
}

func VerifDetailPackage(detail string) string {
	return getPackageFromItemDetail(detail)
}
