//go:build verif

package main

import (
	"fmt"
	"strconv"
	"strings"
	"time"

	"github.com/stackus/goht/compiler"
)

// watchdog for cases that must return: generous, scaled by input size
func budget(n int) time.Duration {
	return 2*time.Second + time.Duration(n/2000)*time.Second
}

// guarded runs f on its own goroutine; a panic or a missed deadline becomes the result.
func guarded(n int, f func() string) string {
	ch := make(chan string, 1)
	go func() {
		defer func() {
			if r := recover(); r != nil {
				ch <- "panic " + strings.ReplaceAll(fmt.Sprint(r), "\n", " ")
			}
		}()
		ch <- f()
	}()
	select {
	case s := <-ch:
		return s
	case <-time.After(budget(n)):
		return "hang"
	}
}

func init() {
	handlers["tokens"] = func(args []string) string {
		in := unhex(args[0])
		return guarded(len(in), func() string {
			toks := compiler.VerifTokens([]byte(in), 100000)
			parts := make([]string, len(toks))
			for i, t := range toks {
				parts[i] = t.Typ + ":" + tohex(t.Lit) + ":" + strconv.Itoa(t.Line) + ":" + strconv.Itoa(t.Col)
			}
			return strings.Join(parts, ";")
		})
	}
	handlers["quote"] = func(args []string) string {
		return "ok " + tohex(strconv.Quote(unhex(args[0])))
	}
}
