//go:build verif

package main

import (
	"bytes"
	"crypto/sha256"
	"encoding/hex"
	"fmt"
	"os"
	"path/filepath"
	"sort"
	"strconv"
	"strings"
	"sync"
	"time"

	"github.com/stackus/goht/compiler"
)

// watchdog for cases that must return: generous, scaled by input size
func budget(n int) time.Duration {
	return 2*time.Second + time.Duration(n/2000)*time.Second
}

// guarded runs f on its own goroutine; a panic or a missed deadline becomes the result.
func guarded(n int, f func() string) string {
	ch := make(chan string, 1)
	go func() {
		defer func() {
			if r := recover(); r != nil {
				ch <- "panic " + strings.ReplaceAll(fmt.Sprint(r), "\n", " ")
			}
		}()
		ch <- f()
	}()
	select {
	case s := <-ch:
		return s
	case <-time.After(budget(n)):
		return "hang"
	}
}

func init() {
	handlers["quote"] = func(args []string) string {
		return "ok " + tohex(strconv.Quote(unhex(args[0])))
	}
}

func errString(err error) string {
	if err == nil {
		return "ok"
	}
	var pe compiler.PositionalError
	if e, ok := err.(compiler.PositionalError); ok {
		pe = e
		return fmt.Sprintf("pos:%d:%d:%s", pe.Line, pe.Column, tohex(err.Error()))
	}
	return "plain:" + tohex(err.Error())
}

func optErr(err error) string {
	if err == nil {
		return "ok"
	}
	return "err:" + tohex(err.Error())
}

// smTable renders the final source-to-target table, sorted.
func smTable(sm *compiler.SourceMap) (string, string) {
	render := func(m map[int]map[int]compiler.Position) string {
		var rows [][4]int
		for l, cols := range m {
			for c, p := range cols {
				rows = append(rows, [4]int{l, c, p.Line, p.Col})
			}
		}
		sort.Slice(rows, func(i, j int) bool {
			if rows[i][0] != rows[j][0] {
				return rows[i][0] < rows[j][0]
			}
			return rows[i][1] < rows[j][1]
		})
		parts := make([]string, len(rows))
		for i, r := range rows {
			parts[i] = fmt.Sprintf("%d,%d,%d,%d", r[0], r[1], r[2], r[3])
		}
		return strings.Join(parts, ";")
	}
	return render(sm.SourceLinesToTarget), render(sm.TargetLinesToSource)
}

func compileCase(in string) string {
	t, err := compiler.ParseString(in)
	var tree bytes.Buffer
	t.Root.Tree(&tree, 0)
	var cbuf bytes.Buffer
	sm, cerr := t.Compose(&cbuf)
	s2t, t2s := smTable(sm)
	// Source mutates the tree (class handling), so Generate runs on a fresh parse
	t2, _ := compiler.ParseString(in)
	var gbuf bytes.Buffer
	gerr := t2.Generate(&gbuf)
	return strings.Join([]string{"done", errString(err), tohex(tree.String()), tohex(cbuf.String()), optErr(cerr),
		s2t, t2s, tohex(gbuf.String()), optErr(gerr)}, "|")
}

// digest of everything the compiler produces for one input (both entry points)
func compileDigest(in string) string {
	t, err := compiler.ParseString(in)
	var cbuf bytes.Buffer
	sm, cerr := t.Compose(&cbuf)
	s2t, t2s := smTable(sm)
	t2, _ := compiler.ParseString(in)
	var gbuf bytes.Buffer
	gerr := t2.Generate(&gbuf)
	h := sha256.Sum256([]byte(strings.Join([]string{errString(err), cbuf.String(), optErr(cerr), s2t, t2s, gbuf.String(), optErr(gerr)}, "\x00")))
	return hex.EncodeToString(h[:8])
}

// cliPath compiles the way `goht generate` does: ParseFile on a file, then Generate.
func cliPath(in string) string {
	dir, err := os.MkdirTemp("", "verif-cli")
	if err != nil {
		return "harness-error"
	}
	defer os.RemoveAll(dir)
	fn := filepath.Join(dir, "t.goht")
	if err := os.WriteFile(fn, []byte(in), 0o644); err != nil {
		return "harness-error"
	}
	t, perr := compiler.ParseFile(fn)
	if perr != nil {
		return "err|" + errString(perr)
	}
	var gbuf bytes.Buffer
	gerr := t.Generate(&gbuf)
	return "ok|" + tohex(gbuf.String()) + "|" + optErr(gerr)
}

func init() {
	handlers["compile"] = func(args []string) string {
		in := unhex(args[0])
		return guarded(len(in), func() string { return compileCase(in) })
	}
	// compilepar <hex>...: every input compiled 3 times from 16 goroutines at once, in different orders
	handlers["compilepar"] = func(args []string) string {
		ins := make([]string, len(args))
		n := 0
		for i, a := range args {
			ins[i] = unhex(a)
			n += len(ins[i])
		}
		return guarded(n*4, func() string {
			const workers = 16
			res := make([][]string, workers)
			var wg sync.WaitGroup
			for w := 0; w < workers; w++ {
				wg.Add(1)
				go func(w int) {
					defer wg.Done()
					defer func() {
						if r := recover(); r != nil {
							res[w] = []string{"panic:" + strings.ReplaceAll(strings.ReplaceAll(fmt.Sprint(r), ",", ";"), " ", "_")}
						}
					}()
					out := make([]string, len(ins))
					for round := 0; round < 3; round++ {
						for k := range ins {
							// a rotation (always a bijection, whatever the batch size) in a direction that depends on the worker
							i := (k + w*13 + round*7) % len(ins)
							if w%2 == 1 {
								i = len(ins) - 1 - i
							}
							d := compileDigest(ins[i])
							if out[i] == "" {
								out[i] = d
							} else if out[i] != d {
								out[i] = "nondet"
							}
						}
					}
					res[w] = out
				}(w)
			}
			wg.Wait()
			final := make([]string, len(ins))
			for i := range ins {
				final[i] = res[0][i%len(res[0])]
				for w := 1; w < workers; w++ {
					if len(res[w]) != len(ins) {
						final[i] = "nondet(" + res[w][0] + ")"
					} else if res[w][i] != final[i] && !strings.HasPrefix(final[i], "nondet") {
						final[i] = "nondet[" + final[i] + "/" + res[w][i] + "]"
					}
				}
			}
			return strings.Join(final, ",")
		})
	}
	handlers["digest"] = func(args []string) string {
		in := unhex(args[0])
		return guarded(len(in), func() string { return compileDigest(in) })
	}
	handlers["clipath"] = func(args []string) string {
		in := unhex(args[0])
		return guarded(len(in), func() string { return cliPath(in) })
	}
	handlers["unquote"] = func(args []string) string {
		s, err := strconv.Unquote(unhex(args[0]))
		if err != nil {
			return "err"
		}
		return "ok " + tohex(s)
	}
}
