//go:build verif

package main

import (
	"bytes"
	"strconv"
	"strings"

	"github.com/stackus/goht"
)

// number of repetitions used to sample Go's randomised map iteration order
const repeats = 24

type unsupported struct{ A int }

func parseVal(s string) any {
	body := s[1:]
	switch s[0] {
	case 'S':
		return unhex(body)
	case 'L':
		l := []string{}
		for _, x := range split(body, ",") {
			l = append(l, unhex(x))
		}
		return l
	case 'B':
		m := map[string]bool{}
		for _, kv := range split(body, ",") {
			p := split(kv, ":")
			m[unhex(p[0])] = p[1] == "1"
		}
		return m
	case 'M':
		m := map[string]string{}
		for _, kv := range split(body, ",") {
			p := split(kv, ":")
			m[unhex(p[0])] = unhex(p[1])
		}
		return m
	case 'O':
		n, _ := strconv.Atoi(body)
		switch n % 6 {
		case 0:
			return 42
		case 1:
			return nil
		case 2:
			return []int{1}
		case 3:
			return map[string]int{"a": 1}
		case 4:
			return unsupported{1}
		default:
			return []any{"a"}
		}
	}
	panic("bad value " + s)
}

func repeatCall(f func() (string, error)) string {
	first := ""
	for i := 0; i < repeats; i++ {
		s, err := f()
		r := "ok " + tohex(s)
		if err != nil {
			r = "err"
			if s != "" {
				r = "err-with-value " + tohex(s)
			}
		}
		if i == 0 {
			first = r
		} else if r != first {
			return "nondet " + first + " | " + r
		}
	}
	return first
}

type objBoth struct{ id, class string }

func (o objBoth) ObjectID() string    { return o.id }
func (o objBoth) ObjectClass() string { return o.class }

type objID struct{ id string }

func (o objID) ObjectID() string { return o.id }

type objClass struct{ class string }

func (o objClass) ObjectClass() string { return o.class }

func parseObj(i, c string) any {
	switch {
	case i != "-" && c != "-":
		return objBoth{unhex(i), unhex(c)}
	case i != "-":
		return objID{unhex(i)}
	case c != "-":
		return objClass{unhex(c)}
	}
	return unsupported{2}
}

func init() {
	handlers["classlist"] = func(args []string) string {
		return repeatCall(func() (string, error) {
			vals := make([]any, len(args))
			for i, a := range args {
				vals[i] = parseVal(a)
			}
			return goht.BuildClassList(vals...)
		})
	}
	handlers["attrlist"] = func(args []string) string {
		return repeatCall(func() (string, error) {
			vals := make([]any, len(args))
			for i, a := range args {
				vals[i] = parseVal(a)
			}
			return goht.BuildAttributeList(vals...)
		})
	}
	handlers["objid"] = func(args []string) string {
		prefix := []string{}
		for _, p := range args[2:] {
			prefix = append(prefix, unhex(p))
		}
		return "ok " + tohex(goht.ObjectID(parseObj(args[0], args[1]), prefix...))
	}
	handlers["objclass"] = func(args []string) string {
		prefix := []string{}
		for _, p := range args[2:] {
			prefix = append(prefix, unhex(p))
		}
		return "ok " + tohex(goht.ObjectClass(parseObj(args[0], args[1]), prefix...))
	}
	handlers["nuke"] = func(args []string) string {
		b := goht.Buffer{Buffer: bytes.NewBufferString(unhex(args[0]))}
		return "ok " + tohex(string(b.Bytes()))
	}
	handlers["escape"] = func(args []string) string {
		return "ok " + tohex(goht.EscapeString(unhex(args[0])))
	}
}

func init() {
	// addimport <pkg> <line>... ; detailpkg <detail>
}

func init() {
	// pool <steps>: the buffer-pool protocol of generated templates driven step by step for several logical renders
	handlers["pool"] = func(args []string) string {
		bufs := map[string]goht.Buffer{}
		var written []string
		for _, st := range strings.Split(args[0], ",") {
			body := st[1:]
			parts := strings.Split(body, ":")
			r := parts[0]
			switch st[0] {
			case 'G':
				if _, ok := bufs[r]; !ok {
					bufs[r] = goht.GetBuffer()
				}
			case 'W':
				if b, ok := bufs[r]; ok {
					b.WriteString(unhex(parts[1]))
				}
			case 'F':
				if b, ok := bufs[r]; ok {
					if parts[1] == "1" {
						out := b.Bytes()
						defer func() {}()
						written = append(written, r+"="+tohex(string(out)))
					}
					goht.ReleaseBuffer(b)
					delete(bufs, r)
				}
			}
		}
		return strings.Join(written, ";")
	}
}
