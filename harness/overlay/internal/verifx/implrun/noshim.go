//go:build verif && !verifshim

package main

// Built when the export shims no longer compile against /repo (an unexported identifier they name was renamed):
// the three operations that need them answer "unavailable" and the checks use the exported API instead.

func init() {
	for _, op := range []string{"tokens", "addimport", "detailpkg"} {
		handlers[op] = func(args []string) string { return "unavailable" }
	}
}
