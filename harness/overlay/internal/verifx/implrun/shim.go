//go:build verif && verifshim

package main

// Handlers that reach unexported functions of the compiler and the proxy through the export shims
// (harness/overlay/compiler/verif_export.go, harness/overlay/internal/proxy/verif_export.go).
// When a refactoring renames one of those unexported identifiers the shims stop compiling; the harness is
// then built without this file (see noshim.go) and the checks fall back to the exported API.

import (
	"strconv"
	"strings"

	"github.com/stackus/goht/compiler"
	"github.com/stackus/goht/internal/proxy"
)

func init() {
	handlers["tokens"] = func(args []string) string {
		in := unhex(args[0])
		return guarded(len(in), func() string {
			toks := compiler.VerifTokens([]byte(in), 100000)
			parts := make([]string, len(toks))
			for i, t := range toks {
				parts[i] = t.Typ + ":" + tohex(t.Lit) + ":" + strconv.Itoa(t.Line) + ":" + strconv.Itoa(t.Col)
			}
			return strings.Join(parts, ";")
		})
	}
	handlers["addimport"] = func(args []string) string {
		lines := []string{}
		for _, a := range args[1:] {
			lines = append(lines, unhex(a))
		}
		n, text := proxy.VerifAddImport(lines, unhex(args[0]))
		return "ok " + strconv.Itoa(n) + " " + tohex(text)
	}
	handlers["detailpkg"] = func(args []string) string {
		return "ok " + tohex(proxy.VerifDetailPackage(unhex(args[0])))
	}
}
