//go:build verif

// implrun runs the real goht implementation on cases given in the line protocol shared with
// the extracted Coq model (ocaml/driver.ml) and prints one canonical result line per case.
package main

import (
	"bufio"
	"encoding/hex"
	"fmt"
	"os"
	"strings"
)

func unhex(s string) string {
	if s == "~" || s == "" {
		return ""
	}
	b, err := hex.DecodeString(s)
	if err != nil {
		panic("bad hex " + s)
	}
	return string(b)
}

func tohex(s string) string {
	if s == "" {
		return "~"
	}
	return hex.EncodeToString([]byte(s))
}

func split(s string, sep string) []string {
	if s == "" {
		return nil
	}
	return strings.Split(s, sep)
}

type handler func(args []string) string

var handlers = map[string]handler{}

func main() {
	in := bufio.NewReaderSize(os.Stdin, 1<<20)
	out := bufio.NewWriterSize(os.Stdout, 1<<20)
	defer out.Flush()
	for {
		line, err := in.ReadString('\n')
		line = strings.TrimRight(line, "\n")
		if line != "" {
			fields := strings.Split(line, " ")
			h, ok := handlers[fields[0]]
			var res string
			if !ok {
				res = "unknown-op"
			} else {
				res = safe(h, fields[1:])
			}
			fmt.Fprintln(out, res)
		}
		if err != nil {
			break
		}
	}
}

func safe(h handler, args []string) (res string) {
	defer func() {
		if r := recover(); r != nil {
			res = fmt.Sprintf("panic %v", r)
		}
	}()
	return h(args)
}
