//go:build verif

// proxyrun drives the real LSP proxy (internal/proxy) between a recording fake of the Go
// language server (downstream) and a recording fake of the editor (client).  One history of
// events per input line (JSON); one trace per output line (JSON): for every event the calls that
// reached the downstream server, the notifications that reached the editor and the value returned
// to the caller.
package main

import (
	"bufio"
	"context"
	"encoding/json"
	"fmt"
	"os"
	"sync"

	"github.com/rs/zerolog"

	"github.com/stackus/goht/internal/protocol"
	"github.com/stackus/goht/internal/proxy"
)

type Loc struct {
	URI string `json:"uri"`
	SL  uint32 `json:"sl"`
	SC  uint32 `json:"sc"`
	EL  uint32 `json:"el"`
	EC  uint32 `json:"ec"`
}

type Diag struct {
	SL  uint32 `json:"sl"`
	SC  uint32 `json:"sc"`
	EL  uint32 `json:"el"`
	EC  uint32 `json:"ec"`
	Msg string `json:"msg"`
	Src string `json:"src,omitempty"`
}

type Ev struct {
	Op        string   `json:"op"`
	Method    string   `json:"method,omitempty"`
	URI       string   `json:"uri,omitempty"`
	Lang      string   `json:"lang,omitempty"`
	Text      *string  `json:"text,omitempty"`
	Version   int32    `json:"version,omitempty"`
	Line      uint32   `json:"line,omitempty"`
	Char      uint32   `json:"char,omitempty"`
	Answer    []Loc    `json:"answer,omitempty"`
	NilAnswer bool     `json:"nil_answer,omitempty"`
	Diags     []Diag   `json:"diags,omitempty"`
	Detail    string   `json:"detail,omitempty"`
	Details   []string `json:"details,omitempty"` // one completion detail per answer item
	Par       []Ev     `json:"par,omitempty"`     // events delivered concurrently (op = "par")
	During    *Ev      `json:"during,omitempty"`  // delivered while the At-th outgoing call of this event is in progress
	At        int      `json:"at,omitempty"`
}

type Item struct {
	K     string `json:"k"` // ds | cl | ret
	M     string `json:"m,omitempty"`
	URI   string `json:"uri,omitempty"`
	Lang  string `json:"lang,omitempty"`
	Ver   int32  `json:"ver,omitempty"`
	Text  string `json:"text,omitempty"`
	Line  uint32 `json:"line,omitempty"`
	Char  uint32 `json:"char,omitempty"`
	Locs  []Loc  `json:"locs,omitempty"`
	Diags []Diag `json:"diags,omitempty"`
	Err   bool   `json:"err,omitempty"`
	Nil   bool   `json:"nil,omitempty"`
	Edits []Loc  `json:"edits,omitempty"` // for completion additional edits: uri unused, sl = line; text in Text
	Panic string `json:"panic,omitempty"`
}

type recorder struct {
	mu    sync.Mutex
	items []Item
	calls int
	hook  func(n int) // called (outside the lock) after the n-th outgoing call was recorded
}

func (r *recorder) add(i Item) {
	r.mu.Lock()
	r.items = append(r.items, i)
	r.calls++
	n, h := r.calls, r.hook
	r.mu.Unlock()
	if h != nil {
		h(n)
	}
}

func (r *recorder) take() []Item {
	r.mu.Lock()
	defer r.mu.Unlock()
	out := r.items
	r.items = nil
	if out == nil {
		out = []Item{}
	}
	return out
}

func rng(l Loc) protocol.Range {
	return protocol.Range{Start: protocol.Position{Line: l.SL, Character: l.SC}, End: protocol.Position{Line: l.EL, Character: l.EC}}
}

func loc(uri protocol.DocumentURI, r protocol.Range) Loc {
	return Loc{URI: string(uri), SL: r.Start.Line, SC: r.Start.Character, EL: r.End.Line, EC: r.End.Character}
}

// ---------------------------------------------------------------- fake downstream server

type fakeServer struct {
	protocol.Server
	rec     *recorder
	answer  []Loc
	isNil   bool
	detail  string
	details []string
}

func (f *fakeServer) pos(m string, td protocol.TextDocumentPositionParams) {
	f.rec.add(Item{K: "ds", M: m, URI: string(td.TextDocument.URI), Line: td.Position.Line, Char: td.Position.Character})
}

func (f *fakeServer) locations() []protocol.Location {
	if f.isNil {
		return nil
	}
	out := make([]protocol.Location, len(f.answer))
	for i, l := range f.answer {
		out[i] = protocol.Location{URI: protocol.DocumentURI(l.URI), Range: rng(l)}
	}
	return out
}

func (f *fakeServer) DidOpen(_ context.Context, p *protocol.DidOpenTextDocumentParams) error {
	f.rec.add(Item{K: "ds", M: "didOpen", URI: string(p.TextDocument.URI), Lang: p.TextDocument.LanguageID, Ver: p.TextDocument.Version, Text: p.TextDocument.Text})
	return nil
}

func (f *fakeServer) DidChange(_ context.Context, p *protocol.DidChangeTextDocumentParams) error {
	text := ""
	for _, c := range p.ContentChanges {
		text += c.Text
	}
	it := Item{K: "ds", M: "didChange", URI: string(p.TextDocument.URI), Ver: p.TextDocument.Version, Text: text}
	if len(p.ContentChanges) != 1 || p.ContentChanges[0].Range != nil {
		it.M = "didChange-not-full"
	}
	f.rec.add(it)
	return nil
}

func (f *fakeServer) DidClose(_ context.Context, p *protocol.DidCloseTextDocumentParams) error {
	f.rec.add(Item{K: "ds", M: "didClose", URI: string(p.TextDocument.URI)})
	return nil
}

func (f *fakeServer) DidSave(_ context.Context, p *protocol.DidSaveTextDocumentParams) error {
	it := Item{K: "ds", M: "didSave", URI: string(p.TextDocument.URI)}
	if p.Text != nil {
		it.Text = *p.Text
	} else {
		it.Nil = true
	}
	f.rec.add(it)
	return nil
}

func (f *fakeServer) Hover(_ context.Context, p *protocol.HoverParams) (*protocol.Hover, error) {
	f.pos("hover", p.TextDocumentPositionParams)
	if f.isNil || len(f.answer) == 0 {
		return nil, nil
	}
	return &protocol.Hover{Contents: protocol.MarkupContent{Kind: "plaintext", Value: "h"}, Range: rng(f.answer[0])}, nil
}

func (f *fakeServer) Completion(_ context.Context, p *protocol.CompletionParams) (*protocol.CompletionList, error) {
	f.pos("completion", p.TextDocumentPositionParams)
	if f.isNil {
		return nil, nil
	}
	cl := &protocol.CompletionList{}
	for i, l := range f.answer {
		r := rng(l)
		item := protocol.CompletionItem{Label: "item", TextEdit: &protocol.TextEdit{Range: r, NewText: "x"}}
		detail := f.detail
		if len(f.details) > 0 {
			detail = f.details[i%len(f.details)]
		}
		if detail != "" {
			item.Detail = detail
			item.AdditionalTextEdits = []protocol.TextEdit{{Range: protocol.Range{Start: protocol.Position{Line: 3}, End: protocol.Position{Line: 3}}, NewText: "\t\"generated-file-edit\"\n"}}
		}
		cl.Items = append(cl.Items, item)
	}
	return cl, nil
}

func (f *fakeServer) Definition(_ context.Context, p *protocol.DefinitionParams) ([]protocol.Location, error) {
	f.pos("definition", p.TextDocumentPositionParams)
	return f.locations(), nil
}

func (f *fakeServer) TypeDefinition(_ context.Context, p *protocol.TypeDefinitionParams) ([]protocol.Location, error) {
	f.pos("typeDefinition", p.TextDocumentPositionParams)
	return f.locations(), nil
}

func (f *fakeServer) Implementation(_ context.Context, p *protocol.ImplementationParams) ([]protocol.Location, error) {
	f.pos("implementation", p.TextDocumentPositionParams)
	return f.locations(), nil
}

func (f *fakeServer) References(_ context.Context, p *protocol.ReferenceParams) ([]protocol.Location, error) {
	f.pos("references", p.TextDocumentPositionParams)
	return f.locations(), nil
}

func (f *fakeServer) Declaration(_ context.Context, p *protocol.DeclarationParams) (*protocol.Or_textDocument_declaration, error) {
	f.pos("declaration", p.TextDocumentPositionParams)
	if f.isNil {
		return nil, nil
	}
	links := []protocol.DeclarationLink{}
	for _, l := range f.answer {
		links = append(links, protocol.DeclarationLink{TargetURI: protocol.DocumentURI(l.URI), TargetRange: rng(l), TargetSelectionRange: rng(l)})
	}
	return &protocol.Or_textDocument_declaration{Value: links}, nil
}

func (f *fakeServer) SignatureHelp(_ context.Context, p *protocol.SignatureHelpParams) (*protocol.SignatureHelp, error) {
	f.pos("signatureHelp", p.TextDocumentPositionParams)
	if f.isNil {
		return nil, nil
	}
	return &protocol.SignatureHelp{}, nil
}

func (f *fakeServer) PrepareRename(_ context.Context, p *protocol.PrepareRenameParams) (*protocol.PrepareRenameResult, error) {
	f.pos("prepareRename", p.TextDocumentPositionParams)
	if f.isNil || len(f.answer) == 0 {
		return nil, nil
	}
	return &protocol.PrepareRenameResult{Range: rng(f.answer[0]), Placeholder: "p"}, nil
}

func (f *fakeServer) OnTypeFormatting(_ context.Context, p *protocol.DocumentOnTypeFormattingParams) ([]protocol.TextEdit, error) {
	f.rec.add(Item{K: "ds", M: "onTypeFormatting", URI: string(p.TextDocument.URI), Line: p.Position.Line, Char: p.Position.Character})
	if f.isNil {
		return nil, nil
	}
	out := []protocol.TextEdit{}
	for _, l := range f.answer {
		out = append(out, protocol.TextEdit{Range: rng(l), NewText: "x"})
	}
	return out, nil
}

func (f *fakeServer) Moniker(_ context.Context, p *protocol.MonikerParams) ([]protocol.Moniker, error) {
	f.pos("moniker", p.TextDocumentPositionParams)
	if f.isNil {
		return nil, nil
	}
	return []protocol.Moniker{{Scheme: "s", Identifier: "i"}}, nil
}

func (f *fakeServer) CodeLens(_ context.Context, p *protocol.CodeLensParams) ([]protocol.CodeLens, error) {
	f.rec.add(Item{K: "ds", M: "codeLens", URI: string(p.TextDocument.URI)})
	if f.isNil {
		return nil, nil
	}
	out := []protocol.CodeLens{}
	for _, l := range f.answer {
		out = append(out, protocol.CodeLens{Range: rng(l)})
	}
	return out, nil
}

func (f *fakeServer) CodeAction(_ context.Context, p *protocol.CodeActionParams) ([]protocol.CodeAction, error) {
	f.rec.add(Item{K: "ds", M: "codeAction", URI: string(p.TextDocument.URI), Line: p.Range.Start.Line, Char: p.Range.Start.Character})
	if f.isNil {
		return nil, nil
	}
	ca := protocol.CodeAction{Title: "t", Edit: &protocol.WorkspaceEdit{}}
	for i, l := range f.answer {
		if i == 0 {
			ca.Diagnostics = []protocol.Diagnostic{{Range: rng(l), Message: "d"}}
		}
		ca.Edit.DocumentChanges = append(ca.Edit.DocumentChanges, protocol.DocumentChanges{TextDocumentEdit: &protocol.TextDocumentEdit{
			TextDocument: protocol.OptionalVersionedTextDocumentIdentifier{TextDocumentIdentifier: protocol.TextDocumentIdentifier{URI: protocol.DocumentURI(l.URI)}},
			Edits:        []protocol.Or_TextDocumentEdit_edits_Elem{{Value: protocol.TextEdit{Range: rng(l), NewText: "x"}}},
		}})
	}
	if len(f.answer) > 1 {
		old, nw := protocol.DocumentURI("file:///w/old.go"), protocol.DocumentURI("file:///w/new.go")
		ca.Edit.DocumentChanges = append(ca.Edit.DocumentChanges, protocol.DocumentChanges{RenameFile: &protocol.RenameFile{OldURI: old, NewURI: nw}})
	}
	return []protocol.CodeAction{ca}, nil
}

// ---------------------------------------------------------------- fake editor

type fakeClient struct {
	protocol.Client
	rec *recorder
}

func diagsOf(ds []protocol.Diagnostic) []Diag {
	out := []Diag{}
	for _, d := range ds {
		out = append(out, Diag{SL: d.Range.Start.Line, SC: d.Range.Start.Character, EL: d.Range.End.Line, EC: d.Range.End.Character, Msg: d.Message, Src: d.Source})
	}
	return out
}

func (c *fakeClient) PublishDiagnostics(_ context.Context, p *protocol.PublishDiagnosticsParams) error {
	c.rec.add(Item{K: "cl", M: "publishDiagnostics", URI: string(p.URI), Diags: diagsOf(p.Diagnostics)})
	return nil
}

func (c *fakeClient) ShowMessage(_ context.Context, p *protocol.ShowMessageParams) error {
	c.rec.add(Item{K: "cl", M: "showMessage", Text: p.Message})
	return nil
}

// ---------------------------------------------------------------- driver

type world struct {
	rec *recorder
	fs  *fakeServer
	srv *proxy.Server
	cl  *proxy.Client
}

func newWorld() *world {
	rec := &recorder{}
	fs := &fakeServer{rec: rec}
	fc := &fakeClient{rec: rec}
	smc := proxy.NewSourceMapCache()
	dc := proxy.NewDiagnosticsCache()
	srcs := proxy.NewDocumentContents()
	logger := zerolog.Nop()
	return &world{rec: rec, fs: fs, srv: proxy.NewServer(fs, fc, smc, dc, srcs, logger), cl: proxy.NewClient(fc, smc, dc, logger)}
}

func tdp(e Ev) protocol.TextDocumentPositionParams {
	return protocol.TextDocumentPositionParams{TextDocument: protocol.TextDocumentIdentifier{URI: protocol.DocumentURI(e.URI)},
		Position: protocol.Position{Line: e.Line, Character: e.Char}}
}

func (w *world) apply(e Ev) (ret Item) {
	ctx := context.Background()
	ret = Item{K: "ret"}
	defer func() {
		if r := recover(); r != nil {
			ret = Item{K: "ret", Panic: fmt.Sprint(r)}
		}
	}()
	var err error
	switch e.Op {
	case "open":
		text := ""
		if e.Text != nil {
			text = *e.Text
		}
		lang := e.Lang
		if lang == "" {
			lang = "goht"
		}
		err = w.srv.DidOpen(ctx, &protocol.DidOpenTextDocumentParams{TextDocument: protocol.TextDocumentItem{URI: protocol.DocumentURI(e.URI), LanguageID: lang, Version: e.Version, Text: text}})
	case "change":
		text := ""
		if e.Text != nil {
			text = *e.Text
		}
		err = w.srv.DidChange(ctx, &protocol.DidChangeTextDocumentParams{
			TextDocument:   protocol.VersionedTextDocumentIdentifier{Version: e.Version, TextDocumentIdentifier: protocol.TextDocumentIdentifier{URI: protocol.DocumentURI(e.URI)}},
			ContentChanges: []protocol.TextDocumentContentChangeEvent{{Text: text}}})
	case "close":
		err = w.srv.DidClose(ctx, &protocol.DidCloseTextDocumentParams{TextDocument: protocol.TextDocumentIdentifier{URI: protocol.DocumentURI(e.URI)}})
	case "save":
		err = w.srv.DidSave(ctx, &protocol.DidSaveTextDocumentParams{TextDocument: protocol.TextDocumentIdentifier{URI: protocol.DocumentURI(e.URI)}, Text: e.Text})
	case "diag":
		ds := []protocol.Diagnostic{}
		for _, d := range e.Diags {
			ds = append(ds, protocol.Diagnostic{Range: rng(Loc{SL: d.SL, SC: d.SC, EL: d.EL, EC: d.EC}), Message: d.Msg, Source: "compiler"})
		}
		err = w.cl.PublishDiagnostics(ctx, &protocol.PublishDiagnosticsParams{URI: protocol.DocumentURI(e.URI), Diagnostics: ds})
	case "msg":
		text := ""
		if e.Text != nil {
			text = *e.Text
		}
		err = w.cl.ShowMessage(ctx, &protocol.ShowMessageParams{Type: 1, Message: text})
	case "req":
		w.fs.answer, w.fs.isNil, w.fs.detail, w.fs.details = e.Answer, e.NilAnswer, e.Detail, e.Details
		p := tdp(e)
		switch e.Method {
		case "hover":
			var r *protocol.Hover
			r, err = w.srv.Hover(ctx, &protocol.HoverParams{TextDocumentPositionParams: p})
			if r == nil {
				ret.Nil = true
			} else {
				ret.Locs = []Loc{loc("", r.Range)}
			}
		case "completion":
			var r *protocol.CompletionList
			r, err = w.srv.Completion(ctx, &protocol.CompletionParams{TextDocumentPositionParams: p})
			if r == nil {
				ret.Nil = true
			} else {
				for _, it := range r.Items {
					if it.TextEdit != nil {
						ret.Locs = append(ret.Locs, loc("", it.TextEdit.Range))
					}
					for _, ae := range it.AdditionalTextEdits {
						l := loc("", ae.Range)
						l.URI = ae.NewText
						ret.Edits = append(ret.Edits, l)
					}
				}
			}
		case "definition", "typeDefinition", "implementation", "references":
			var r []protocol.Location
			switch e.Method {
			case "definition":
				r, err = w.srv.Definition(ctx, &protocol.DefinitionParams{TextDocumentPositionParams: p})
			case "typeDefinition":
				r, err = w.srv.TypeDefinition(ctx, &protocol.TypeDefinitionParams{TextDocumentPositionParams: p})
			case "implementation":
				r, err = w.srv.Implementation(ctx, &protocol.ImplementationParams{TextDocumentPositionParams: p})
			case "references":
				r, err = w.srv.References(ctx, &protocol.ReferenceParams{TextDocumentPositionParams: p})
			}
			if r == nil {
				ret.Nil = true
			}
			for _, l := range r {
				ret.Locs = append(ret.Locs, loc(l.URI, l.Range))
			}
		case "declaration":
			var r *protocol.Or_textDocument_declaration
			r, err = w.srv.Declaration(ctx, &protocol.DeclarationParams{TextDocumentPositionParams: p})
			if r == nil {
				ret.Nil = true
			} else if links, ok := r.Value.([]protocol.DeclarationLink); ok {
				for _, l := range links {
					ret.Locs = append(ret.Locs, loc(l.TargetURI, l.TargetRange))
				}
			}
		case "signatureHelp":
			var r *protocol.SignatureHelp
			r, err = w.srv.SignatureHelp(ctx, &protocol.SignatureHelpParams{TextDocumentPositionParams: p})
			ret.Nil = r == nil
		case "prepareRename":
			var r *protocol.PrepareRenameResult
			r, err = w.srv.PrepareRename(ctx, &protocol.PrepareRenameParams{TextDocumentPositionParams: p})
			if r == nil {
				ret.Nil = true
			} else {
				ret.Locs = []Loc{loc("", r.Range)}
			}
		case "onTypeFormatting":
			var r []protocol.TextEdit
			r, err = w.srv.OnTypeFormatting(ctx, &protocol.DocumentOnTypeFormattingParams{TextDocument: p.TextDocument, Position: p.Position, Ch: "}"})
			ret.Nil = r == nil
			for _, te := range r {
				ret.Locs = append(ret.Locs, loc("", te.Range))
			}
		case "moniker":
			var r []protocol.Moniker
			r, err = w.srv.Moniker(ctx, &protocol.MonikerParams{TextDocumentPositionParams: p})
			ret.Nil = r == nil
			ret.Ver = int32(len(r))
		case "codeLens":
			var r []protocol.CodeLens
			r, err = w.srv.CodeLens(ctx, &protocol.CodeLensParams{TextDocument: p.TextDocument})
			ret.Nil = r == nil
			for _, cl := range r {
				ret.Locs = append(ret.Locs, loc("", cl.Range))
			}
		case "codeAction":
			var r []protocol.CodeAction
			r, err = w.srv.CodeAction(ctx, &protocol.CodeActionParams{TextDocument: p.TextDocument, Range: protocol.Range{Start: p.Position, End: p.Position}})
			ret.Nil = r == nil
			for _, ca := range r {
				for _, d := range ca.Diagnostics {
					ret.Diags = append(ret.Diags, Diag{SL: d.Range.Start.Line, SC: d.Range.Start.Character, EL: d.Range.End.Line, EC: d.Range.End.Character})
				}
				if ca.Edit != nil {
					for _, dc := range ca.Edit.DocumentChanges {
						if dc.TextDocumentEdit == nil {
							ret.Locs = append(ret.Locs, Loc{URI: "rename:" + string(dc.RenameFile.OldURI)})
							continue
						}
						for _, ed := range dc.TextDocumentEdit.Edits {
							if te, ok := ed.Value.(protocol.TextEdit); ok {
								ret.Locs = append(ret.Locs, loc(dc.TextDocumentEdit.TextDocument.URI, te.Range))
							}
						}
					}
				}
			}
		default:
			ret.M = "unknown-method"
		}
	}
	ret.Err = err != nil
	return ret
}

func main() {
	in := bufio.NewReaderSize(os.Stdin, 1<<24)
	out := bufio.NewWriterSize(os.Stdout, 1<<20)
	defer out.Flush()
	for {
		line, rerr := in.ReadString('\n')
		if len(line) > 1 {
			var evs []Ev
			if err := json.Unmarshal([]byte(line), &evs); err != nil {
				fmt.Fprintln(out, `{"error":"bad json"}`)
			} else {
				w := newWorld()
				trace := make([][]Item, 0, len(evs))
				for _, e := range evs {
					if e.Op == "par" {
						// concurrent delivery: each sub-event on its own goroutine
						var wg sync.WaitGroup
						rets := make([]Item, len(e.Par))
						for i := range e.Par {
							wg.Add(1)
							go func(i int) {
								defer wg.Done()
								rets[i] = w.apply(e.Par[i])
							}(i)
						}
						wg.Wait()
						items := w.rec.take()
						items = append(items, rets...)
						trace = append(trace, items)
						continue
					}
					w.rec.mu.Lock()
					w.rec.calls = 0
					w.rec.hook = nil
					if e.During != nil {
						during, at, fired := *e.During, e.At, false
						w.rec.hook = func(n int) {
							if n == at && !fired {
								fired = true
								// another connection delivers its message while this call is in progress
								done := make(chan Item, 1)
								go func() { done <- w.apply(during) }()
								r := <-done
								r.M = "during"
								w.rec.mu.Lock()
								w.rec.items = append(w.rec.items, r)
								w.rec.mu.Unlock()
							}
						}
					}
					w.rec.mu.Unlock()
					ret := w.apply(e)
					w.rec.mu.Lock()
					w.rec.hook = nil
					w.rec.mu.Unlock()
					items := w.rec.take()
					items = append(items, ret)
					trace = append(trace, items)
				}
				b, _ := json.Marshal(trace)
				out.Write(b)
				out.WriteByte('\n')
			}
		}
		if rerr != nil {
			break
		}
	}
}
